"""Allocation workloads shared by C02 and C12 (and reused by C19/C20): generator, builder that drives
the real Allocation code, exact judges for conservation (C02) and for the refinement decisions (C12)."""
from __future__ import annotations

from fractions import Fraction as F

from fv.exact import XR, tiling_report
from fv.gen import geo

MODS = ["M0", "M1", "M2", "M3", "M4"]
THRESHOLDS = [0.0, 0.25, 0.5, 0.7, 0.9, 0.95, 0.99, 1.0]


# ---------------------------------------------------------------------------------------------
# generator
# ---------------------------------------------------------------------------------------------
def gen_one_percent(rng) -> dict:
    """layouts around griddify's 1% rule: a long thin cell next to cells whose boundary crosses it close to one end, at a distance
    between 1% of its short side and 1% of its long side (must be cut), or below 1% of its short side (must not)"""
    u = rng.choice([1.0, 0.5, 10.0, 0.1])
    L = rng.choice([40, 100, 200]) * u          # long side
    frac = rng.choice([0.002, 0.005, 0.015, 0.03, 0.2, 0.5, 0.008 * 100 / (L / u)])   # distance of the crossing line from the end, in units of the SHORT side... or long
    d = rng.choice([frac * u, frac * L * 0.5])
    d = float(f"{max(d, 1e-4 * u):.6g}")
    tall = rng.random() < 0.5
    if tall:    # thin tall cell [0,u]x[0,L]; neighbours [u,3u]x[0,d] and [u,3u]x[d,L]
        cells = [[u / 2, L / 2, u, L], [2 * u, d / 2, 2 * u, d], [2 * u, d + (L - d) / 2, 2 * u, L - d]]
        ext = [3 * u, L]
    else:       # thin wide cell [0,L]x[0,u]; neighbours [0,d]x[u,3u] and [d,L]x[u,3u]
        cells = [[L / 2, u / 2, L, u], [d / 2, 2 * u, d, 2 * u], [d + (L - d) / 2, 2 * u, L - d, 2 * u]]
        ext = [L, 3 * u]
    cells = [{"r": [float(f"{v:.9g}") for v in c], "a": {"M0": round(rng.random(), 2) or 0.5}, "d": 0, "f": False} for c in cells]
    return {"fam": "one_percent", "layout": "one_percent", "cells": cells, "ops": [["griddify"]], "form": "tuples", "t": 0.5, "ext": ext}


def gen_alloc(rng, max_cells: int = 40, allow_fixed: bool = True) -> dict:
    if allow_fixed and max_cells >= 40 and rng.random() < 0.06:
        return gen_one_percent(rng)
    fam = geo.pick_family(rng)
    layout = rng.choice(["guillotine", "guillotine", "guillotine", "vstrips", "hstrips", "grid", "single", "two"])
    sc = rng.choice([1.0, 1.0, 10.0, 1e3, 1e-3])
    if layout == "vstrips":
        nx, ny = rng.randint(3, 9), rng.randint(1, 2)
    elif layout == "hstrips":
        nx, ny = rng.randint(1, 2), rng.randint(3, 9)
    elif layout == "single":
        nx, ny = rng.randint(1, 3), rng.randint(1, 3)
    else:
        nx, ny = rng.randint(2, 10), rng.randint(2, 10)
    ox = rng.choice([F(0), F(0), F(0), F(2), F(1, 10)]) if fam != "float53" else F(0)
    xs = geo.make_axis(rng, fam, nx, origin=ox, scale=sc)
    ys = geo.make_axis(rng, fam, ny, scale=sc)
    idx: list = []
    if layout == "vstrips":
        cuts = sorted(rng.sample(range(1, nx), rng.randint(1, nx - 1)))
        b = [0] + cuts + [nx]
        for a_, b_ in zip(b, b[1:]):
            if ny == 2 and rng.random() < 0.3:
                idx += [(a_, b_, 0, 1), (a_, b_, 1, 2)]
            else:
                idx.append((a_, b_, 0, ny))
    elif layout == "hstrips":
        cuts = sorted(rng.sample(range(1, ny), rng.randint(1, ny - 1)))
        b = [0] + cuts + [ny]
        for a_, b_ in zip(b, b[1:]):
            if nx == 2 and rng.random() < 0.3:
                idx += [(0, 1, a_, b_), (1, 2, a_, b_)]
            else:
                idx.append((0, nx, a_, b_))
    elif layout == "grid":
        idx = [(i, i + 1, j, j + 1) for i in range(nx) for j in range(ny)]
    elif layout == "single":
        idx = [(0, nx, 0, ny)]
    elif layout == "two":
        c = rng.randint(1, nx - 1)
        idx = [(0, c, 0, ny), (c, nx, 0, ny)]
    else:
        geo.guillotine(rng, 0, nx, 0, ny, rng.randint(1, 6), idx, stop=0.2)
    if len(idx) > max_cells:
        idx = idx[:max_cells]
    if len(idx) > 2 and rng.random() < 0.4:   # holes
        for _ in range(rng.randint(1, max(1, len(idx) // 4))):
            idx.pop(rng.randrange(len(idx)))
    nm = rng.randint(1, 5)
    mods = MODS[:nm]
    deep = rng.choice([9, 10, 11, 30]) if rng.random() < 0.06 else None      # depths are bookkeeping: a long refinement history
    t = rng.choice(THRESHOLDS)
    cells = []
    nfixed = 0
    for (i0, i1, j0, j1) in idx:
        spec = geo.cwh(xs[i0], xs[i1], ys[j0], ys[j1])
        r = rng.random()
        fixed = False
        if allow_fixed and r < 0.12:
            amap = {f"F{nfixed}": 1.0}
            nfixed += 1
            fixed = True
        elif r < 0.22:
            amap = {}
        else:
            amap = {}
            for m in rng.sample(mods, rng.randint(1, nm)):
                v = rng.random()
                if v < 0.12:
                    val = 0.0
                elif v < 0.2:
                    val = 1.0
                elif v < 0.35:
                    val = t
                elif v < 0.45:
                    val = min(1.0, max(0.0, t + rng.choice([-1e-9, 1e-9, -1e-3, 1e-3, -2 ** -53, 2 ** -52])))
                else:
                    val = round(rng.random(), rng.choice([1, 2, 3, 16]))
                amap[m] = float(val)
        depth = rng.choice([0, 0, 0, 1, 2, 3]) if rng.random() < 0.5 else 0
        if deep is not None:
            depth = deep + rng.choice([0, 0, 1])
        cells.append({"r": spec, "a": amap, "d": depth, "f": fixed})
    # every module must have positive area somewhere (otherwise the centre of mass is undefined)
    tot: dict = {}
    for c in cells:
        for m, v in c["a"].items():
            tot[m] = tot.get(m, 0.0) + v
    for m, v in tot.items():
        if v == 0.0:
            for c in cells:
                if m in c["a"]:
                    c["a"][m] = 0.5
                    break
    nops = rng.choice([1, 1, 2, 3, 4])
    ops = []
    for _ in range(nops):
        k = rng.random()
        if k < 0.45:
            ops.append(["refine", rng.choice([t, t, rng.choice(THRESHOLDS), round(rng.random(), 2)]), rng.choice([1, 1, 1, 2, 3])])
        elif k < 0.7:
            ops.append(["uniform"])
        else:
            ops.append(["griddify"])
    form = "tuples" if nfixed or rng.random() < 0.5 else rng.choice(["tree", "text"])
    if form == "text" and not any(c["a"] for c in cells):
        form = "tree"    # read_yaml tells text from a file name by the presence of ': '; a document without any map entry has none
    return {"fam": fam, "layout": layout, "cells": cells, "ops": ops, "form": form, "t": t,
            "ext": [geo.fl(xs[-1] - xs[0]), geo.fl(ys[-1] - ys[0])]}


def alloc_text(cells) -> str:
    from fv.gen.dies import yaml_num
    out = []
    for c in cells:
        m = "{" + ", ".join(f"{k}: {yaml_num(v)}" for k, v in c["a"].items()) + "}"
        r = "[" + ", ".join(yaml_num(v) for v in c["r"]) + "]"
        out.append(f"- [{r}, {m}" + (f", {c['d']}]" if c["d"] else "]"))
    return "\n".join(out) + "\n"


def build_alloc(case_alloc: dict):
    """drives the real constructor the way a fresh process would (tolerance undefined first)"""
    from frame.allocation.allocation import Allocation
    from frame.geometry.geometry import Rectangle, Point, Shape
    Rectangle.undefine_epsilon()
    cells, form = case_alloc["cells"], case_alloc["form"]
    if form == "tuples":
        lst = []
        for c in cells:
            r = Rectangle(center=Point(c["r"][0], c["r"][1]), shape=Shape(c["r"][2], c["r"][3]), fixed=bool(c["f"]))
            lst.append((r, dict(c["a"]), c["d"]))
        return Allocation(lst)
    if form == "text":
        return Allocation(alloc_text(cells))
    return Allocation([[list(c["r"]), dict(c["a"]), c["d"]] if c["d"] else [list(c["r"]), dict(c["a"])] for c in cells])


def predicted_size(a, op) -> int:
    """upper bound of the number of cells after op (the constructor is quadratic: sequences are cut short)"""
    cells = a.allocations
    if op[0] == "refine":
        return sum(2 ** op[2] for _ in cells)
    if op[0] == "uniform":
        maxd = max(c.depth for c in cells)
        return sum(2 ** (maxd - c.depth) for c in cells)
    xs = {c.rect.center.x - c.rect.shape.w / 2 for c in cells} | {c.rect.center.x + c.rect.shape.w / 2 for c in cells}
    ys = {c.rect.center.y - c.rect.shape.h / 2 for c in cells} | {c.rect.center.y + c.rect.shape.h / 2 for c in cells}
    return min(len(xs) * len(ys), 8 * len(cells))


def loaded_matches_document(ctx, a, case_alloc) -> bool:
    want = [(tuple(map(float, c["r"][:4])), {k: float(v) for k, v in c["a"].items()}, c["d"]) for c in case_alloc["cells"]]
    got = [((ra.rect.center.x, ra.rect.center.y, ra.rect.shape.w, ra.rect.shape.h), dict(ra.alloc), ra.depth) for ra in a.allocations]
    ctx.count("loaded_allocation_compared_with_document")
    if want != got:
        bad = next((w, g) for w, g in zip(want, got) if w != g) if len(want) == len(got) else (len(want), len(got))
        ctx.violation("loaded_allocation_differs", f"the loaded allocation is not what the document ({case_alloc['form']}) says: {bad}")
        return False
    return True


def apply_op(a, op):
    if op[0] == "refine":
        return a.refine(op[1], op[2])
    if op[0] == "uniform":
        return a.uniform_refinement_depth()
    return a.griddify()


# ---------------------------------------------------------------------------------------------
# judges
# ---------------------------------------------------------------------------------------------
def cells_of(a):
    return [(XR.of(ra.rect), ra) for ra in a.allocations]


def match_children(old, new, scale):
    """assign every new cell to the unique old cell containing its centre.
    returns (kids per old index, problems)"""
    tl = F(1e-9) * F(scale)
    kids = [[] for _ in old]
    problems = []
    for (X, ra) in new:
        owners = [k for k, (P, _) in enumerate(old) if P.x0 < X.cx < P.x1 and P.y0 < X.cy < P.y1]
        if len(owners) != 1:
            problems.append(f"new cell {X} has its centre inside {len(owners)} old cells")
            continue
        P = old[owners[0]][0]
        if X.inside_margin(P) < -tl:
            problems.append(f"new cell {X} is not inside the old cell {P} containing its centre")
        kids[owners[0]].append((X, ra))
    return kids, problems


def modules_summary(a):
    out = {}
    for ra in a.allocations:
        for m in ra.alloc:
            out.setdefault(m, None)
    for m in out:
        c = a.center(m)
        out[m] = (a.area(m), c.x, c.y)
    return out


def judge_conservation(ctx, old_a, new_a, old_sum, scale, what):
    """C02: tiling, inheritance of ratios, fixed cells uncut, module area and centre conserved"""
    old, new = cells_of(old_a), cells_of(new_a)
    kids, problems = match_children(old, new, scale)
    for p in problems[:3]:
        ctx.violation("cell_outside_parent", f"{what}: {p}")
    if problems:
        return
    ctx.count("parent_tilings_checked", len(old))
    for (P, pra), ks in zip(old, kids):
        rep = tiling_report([k[0] for k in ks], P, scale)
        if rep:
            ctx.violation("children_not_tiling", f"{what}: children of {P} : {rep}")
            return
        for (X, ra) in ks:
            if ra.alloc != pra.alloc:
                ctx.violation("ratios_not_inherited", f"{what}: child {X} has map {ra.alloc}, parent {pra.alloc}")
                return
            if ra.alloc is pra.alloc and len(ks) > 1:
                ctx.count("shared_map_objects")
        if pra.rect.fixed:
            ctx.count("fixed_cells_checked")
            if len(ks) != 1:
                ctx.violation("fixed_cell_cut", f"{what}: fixed cell {P} was cut into {len(ks)} cells")
                return
            if not ks[0][1].rect.fixed:
                ctx.violation("fixed_flag_lost", f"{what}: fixed cell {P} lost its fixed flag")
        else:
            if any(k[1].rect.fixed for k in ks):
                ctx.violation("fixed_flag_gained", f"{what}: child of a refinable cell flagged fixed")
    ctx.count("module_conservation_checked")
    new_sum = modules_summary(new_a)
    if set(new_sum) != set(old_sum):
        ctx.violation("modules_changed", f"{what}: modules {sorted(old_sum)} -> {sorted(new_sum)}")
        return
    for m, (ar, cx, cy) in old_sum.items():
        ar2, cx2, cy2 = new_sum[m]
        if abs(ar2 - ar) > 1e-9 * max(abs(ar), 1e-300) + 1e-12 * scale * scale:
            ctx.violation("module_area_changed", f"{what}: area({m}) {ar!r} -> {ar2!r}")
        mag = scale + max(abs(cx), abs(cy))
        if abs(cx2 - cx) > 1e-9 * mag or abs(cy2 - cy) > 1e-9 * mag:
            ctx.violation("module_centre_changed", f"{what}: center({m}) ({cx!r},{cy!r}) -> ({cx2!r},{cy2!r})")


def valid_halving(P: XR, kids: list[XR], levels: int, tl) -> bool:
    """kids are exactly the 2^levels cells obtained from P by repeatedly halving the longer side"""
    if levels == 0:
        return len(kids) == 1 and all(abs(a - b) <= tl for a, b in zip(
            (kids[0].x0, kids[0].x1, kids[0].y0, kids[0].y1), (P.x0, P.x1, P.y0, P.y1)))
    if len(kids) != 2 ** levels:
        return False
    tie = abs(P.w - P.h) <= F(1e-9) * max(P.w, P.h)
    options = []
    if P.w > P.h or tie:
        options.append("x")
    if P.h > P.w or tie:
        options.append("y")
    for ax in options:
        if ax == "x":
            m = P.cx
            lo = [k for k in kids if k.cx < m]
            hi = [k for k in kids if k.cx > m]
            if len(lo) + len(hi) != len(kids) or any(k.x1 > m + tl for k in lo) or any(k.x0 < m - tl for k in hi):
                continue
            if valid_halving(XR(P.x0, m, P.y0, P.y1), lo, levels - 1, tl) and valid_halving(XR(m, P.x1, P.y0, P.y1), hi, levels - 1, tl):
                return True
        else:
            m = P.cy
            lo = [k for k in kids if k.cy < m]
            hi = [k for k in kids if k.cy > m]
            if len(lo) + len(hi) != len(kids) or any(k.y1 > m + tl for k in lo) or any(k.y0 < m - tl for k in hi):
                continue
            if valid_halving(XR(P.x0, P.x1, P.y0, m), lo, levels - 1, tl) and valid_halving(XR(P.x0, P.x1, m, P.y1), hi, levels - 1, tl):
                return True
    return False


def judge_decisions(ctx, old_a, new_a, op, scale, what):
    """C12: exactness of refine / uniform / griddify decisions"""
    old, new = cells_of(old_a), cells_of(new_a)
    kids, problems = match_children(old, new, scale)
    if problems:
        ctx.violation("cell_outside_parent", f"{what}: {problems[0]}")
        return
    tl = F(1e-9) * F(scale)
    if op[0] in ("refine", "uniform"):
        maxd = max(ra.depth for _, ra in old)
        for (P, pra), ks in zip(old, kids):
            if op[0] == "refine":
                t, L = op[1], op[2]
                should = (not pra.rect.fixed) and len(pra.alloc) > 0 and all(v <= t for v in pra.alloc.values())
                levels = L if should else 0
                ctx.count("refine_cells_should_split" if should else "refine_cells_should_stay")
            else:
                levels = 0 if pra.rect.fixed else maxd - pra.depth
                ctx.count("uniform_cells_judged")
            if len(ks) != 2 ** levels:
                ctx.violation("wrong_split_count", f"{what}: cell {P} map={pra.alloc} depth={pra.depth} fixed={pra.rect.fixed} became {len(ks)} cells, expected {2 ** levels}")
                return
            if not valid_halving(P, [k[0] for k in ks], levels, tl):
                ctx.violation("not_longer_side_halving", f"{what}: cell {P} children {[k[0] for k in ks]} are not {levels} level(s) of halving the longer side")
                return
            for (X, ra) in ks:
                if ra.depth != pra.depth + levels:
                    ctx.violation("wrong_depth", f"{what}: cell {P} depth {pra.depth} -> child depth {ra.depth}, expected {pra.depth + levels}")
                    return
                if levels == 0 and (ra.alloc != pra.alloc):
                    ctx.violation("untouched_cell_changed", f"{what}: cell {P} should be left as it was, map {pra.alloc} -> {ra.alloc}")
                    return
        if op[0] == "uniform":
            for (X, ra) in new:
                if not ra.rect.fixed and ra.depth != maxd:
                    ctx.violation("not_uniform_depth", f"{what}: refinable cell {X} ends at depth {ra.depth}, former maximum {maxd}")
                    return
        return
    # griddify: no refinable cell crossed by a boundary line of another cell (1% rule excepted)
    xlines = sorted({P.x0 for P, _ in old} | {P.x1 for P, _ in old})
    ylines = sorted({P.y0 for P, _ in old} | {P.y1 for P, _ in old})
    pct = F(1, 100)
    for (P, pra), ks in zip(old, kids):
        for (X, ra) in ks:
            if ra.rect.fixed:
                continue
            ctx.count("grid_cells_judged")
            for xl in xlines:
                if X.x0 + tl < xl < X.x1 - tl:
                    ctx.count("grid_lines_inside_examined")
                    if min(xl - X.x0, P.x1 - xl) > pct * P.h * (1 + F(1, 10 ** 6)) + tl:
                        ctx.violation("cell_crossed_x", f"{what}: refinable cell {X} (cut from {P}) is crossed by the boundary x={float(xl)} of another cell; pieces {float(xl - X.x0)} / {float(X.x1 - xl)} vs 1% of {float(P.h)}")
                        return
            for yl in ylines:
                if X.y0 + tl < yl < X.y1 - tl:
                    ctx.count("grid_lines_inside_examined")
                    if min(yl - X.y0, P.y1 - yl) > pct * X.w * (1 + F(1, 10 ** 6)) + tl:
                        ctx.violation("cell_crossed_y", f"{what}: refinable cell {X} (cut from {P}) is crossed by the boundary y={float(yl)} of another cell; pieces {float(yl - X.y0)} / {float(X.y1 - yl)} vs 1% of {float(X.w)}")
                        return
        if pra.rect.fixed and len(ks) != 1:
            ctx.violation("fixed_cell_cut", f"{what}: fixed cell {P} cut by griddify")
            return
