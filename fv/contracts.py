"""In-situ contracts on the real Rectangle methods (C18 judged on the inputs the higher layers really produce).

icontract postconditions (named condition functions, explicit error=) are attached from the harness to
frame.geometry.geometry.Rectangle; they only RECORD (never raise, never change behaviour) and count their
evaluations.  Used (a) inside the C01/C02/C03/C11/C12 workloads, (b) by the pytest plugin fv.pytest_contracts
while the repository's own test-suite runs (thorough tier of C18)."""
from __future__ import annotations

from fractions import Fraction as F

from fv.exact import XR

EVALUATIONS: dict[str, int] = {}
VIOLATIONS: list[dict] = []
_installed = [False]


class ContractBroken(Exception):
    pass


def _count(name):
    EVALUATIONS[name] = EVALUATIONS.get(name, 0) + 1


def _scale(*xs: XR) -> F:
    return max(max(abs(x.x0), abs(x.x1), abs(x.y0), abs(x.y1), x.w, x.h) for x in xs) or F(1)


def _record(name, msg):
    if len(VIOLATIONS) < 50:
        VIOLATIONS.append({"contract": name, "msg": msg})


def post_area_overlap(self, r, result):
    _count("area_overlap")
    if EVALUATIONS["area_overlap"] % 5:      # the constructors call this O(n^2) times: judge every fifth call exactly
        return True
    _count("area_overlap_judged_exactly")
    try:
        A, B = XR.of(self), XR.of(r)
        s = _scale(A, B)
        if abs(F(result) - A.inter_area(B)) > F(1e-9) * s * s:
            _record("area_overlap", f"{A}.area_overlap({B}) = {result!r}, exact {float(A.inter_area(B))!r}")
    except Exception:  # noqa  (non-finite values etc.: not this contract's business)
        pass
    return True


def post_mul(self, other, result):
    _count("__mul__")
    try:
        A, B = XR.of(self), XR.of(other)
        s = _scale(A, B)
        iw, ih = A.inter_wh(B)
        gz = F(1e-12) * s
        if self.region != other.region:
            if result is not None:
                _record("__mul__", f"intersection across regions {self.region!r}/{other.region!r} is not None")
        elif min(iw, ih) > gz and result is None:
            _record("__mul__", f"{A} * {B} is None but the common area is {float(iw * ih)!r}")
        elif min(iw, ih) < -gz and result is not None:
            _record("__mul__", f"{A} * {B} exists but the rectangles are apart")
        elif result is not None:
            M = XR.of(result)
            if M.inside_margin(A) < -F(1e-9) * s or M.inside_margin(B) < -F(1e-9) * s:
                _record("__mul__", f"{A} * {B} = {M} is not inside both operands")
    except Exception:  # noqa
        pass
    return True


def _tiles(parent, pieces, name):
    try:
        P = XR.of(parent)
        X = [XR.of(p) for p in pieces]
        s = _scale(P)
        tot = sum((x.area for x in X), F(0))
        if abs(tot - P.area) > F(1e-9) * s * s or any(x.inside_margin(P) < -F(1e-9) * s for x in X):
            _record(name, f"pieces {X} do not tile {P}")
        for p in pieces:
            if (p.region, p.fixed, p.hard) != (parent.region, parent.fixed, parent.hard):
                _record(name, f"piece attributes {(p.region, p.fixed, p.hard)} differ from the parent's")
                break
    except Exception:  # noqa
        pass


def post_split_horizontal(self, x, result):
    _count("split_horizontal")
    _tiles(self, result, "split_horizontal")
    return True


def post_split_vertical(self, y, result):
    _count("split_vertical")
    _tiles(self, result, "split_vertical")
    return True


def post_split(self, result):
    _count("split")
    _tiles(self, result, "split")
    try:
        a = XR.of(result[0])
        P = XR.of(self)
        if P.h > P.w * (1 + F(1, 10 ** 9)) and abs(a.w - P.w) > F(1e-9) * P.w:
            _record("split", f"{P}: taller than wide but cut vertically")
        if P.w > P.h * (1 + F(1, 10 ** 9)) and abs(a.h - P.h) > F(1e-9) * P.h:
            _record("split", f"{P}: wider than tall but cut horizontally")
    except Exception:  # noqa
        pass
    return True


def post_rectangle_grid(self, nrows, ncols, result):
    _count("rectangle_grid")
    if len(result) != nrows * ncols:
        _record("rectangle_grid", f"{len(result)} cells for a {nrows}x{ncols} grid")
    _tiles(self, result, "rectangle_grid")
    return True


def post_is_inside(self, r, result):
    _count("is_inside")
    try:
        A, B = XR.of(self), XR.of(r)
        m = A.inside_margin(B)
        gz = F(1e-12) * _scale(A, B)
        if (m > gz and not result) or (m < -gz and result):
            _record("is_inside", f"{A}.is_inside({B}) = {result}, margin {float(m)!r}")
    except Exception:  # noqa
        pass
    return True


def install() -> str:
    """idempotent; returns the name of the mechanism used"""
    if _installed[0]:
        return "already installed"
    from frame.geometry.geometry import Rectangle
    try:
        import icontract
        wrap = lambda cond, fn: icontract.ensure(cond, error=ContractBroken)(fn)  # noqa
        how = "icontract.ensure"
    except ImportError:
        def wrap(cond, fn):
            import functools
            import inspect
            names = list(inspect.signature(fn).parameters)

            @functools.wraps(fn)
            def w(*a, **k):
                res = fn(*a, **k)
                ba = inspect.signature(fn).bind(*a, **k)
                ba.apply_defaults()
                cond(**{n: ba.arguments[n] for n in names}, result=res)
                return res
            return w
        how = "plain wrapper"
    Rectangle.area_overlap = wrap(post_area_overlap, Rectangle.area_overlap)
    Rectangle.__mul__ = wrap(post_mul, Rectangle.__mul__)
    Rectangle.split_horizontal = wrap(post_split_horizontal, Rectangle.split_horizontal)
    Rectangle.split_vertical = wrap(post_split_vertical, Rectangle.split_vertical)
    Rectangle.split = wrap(post_split, Rectangle.split)
    Rectangle.rectangle_grid = wrap(post_rectangle_grid, Rectangle.rectangle_grid)
    Rectangle.is_inside = wrap(post_is_inside, Rectangle.is_inside)
    _installed[0] = True
    return how


def drain(ctx, prefix="in_situ") -> None:
    """moves recorded contract violations into the recorder of the running case"""
    while VIOLATIONS:
        v = VIOLATIONS.pop()
        ctx.violation(f"{prefix}:{v['contract']}", v["msg"])


def report(ctx) -> None:
    ctx.extra["in_situ_rectangle_contract_evaluations"] = dict(EVALUATIONS)
