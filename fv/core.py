"""Core of the runtime-monitoring framework: shard worker, recorder (Ctx), verdict folding,
evidence writer.  Pure stdlib; run with /venv/bin/python and PYTHONHASHSEED=0.

A property module (fv/props/cNN.py) provides

    ID, RULE, ASSUMPTIONS, CASES{tier:int}, MIN_CASES{tier:int}
    generate(rng, tier, i) -> JSON-serialisable case (dict with key "cls")
    check(case, ctx)       -> None; reports through ctx
    optional: setup(ctx), directed() -> list of cases always run first,
              REQUIRED_CLASSES, REQUIRED_COUNTERS, classify(case, vio) -> known-finding id | None,
              finish(ctx) (per-shard extra evidence), SOFT_DEADLINE{tier}, NSHARDS{tier}
"""

from __future__ import annotations

import hashlib
import importlib
import json
import os
import random
import subprocess
import sys
import time
import traceback
from concurrent.futures import ThreadPoolExecutor

VERIF = os.path.dirname(os.path.dirname(os.path.abspath(__file__)))
DEFAULT_SEED = 20261004
DIGEST_CAP = 100_000          # per shard; beyond this distinct counting is a lower bound
MAX_VIOL_KEPT = 40            # per shard


def repo_path() -> str:
    return os.path.abspath(os.environ.get("VERIF_REPO", "/repo"))


def activate_repo() -> str:
    """Put the repository under test first on sys.path (so its *current working tree* is what
    gets imported) and make sure nothing was imported from elsewhere."""
    rp = repo_path()
    if sys.path[0] != rp:
        sys.path.insert(0, rp)
    deps = os.path.join(VERIF, ".deps")
    if os.path.isdir(deps) and deps not in sys.path:
        sys.path.append(deps)
    import frame  # noqa
    origin = os.path.abspath(list(frame.__path__)[0])
    assert origin.startswith(rp), f"frame imported from {origin}, expected under {rp}"
    return rp


def case_digest(case) -> str:
    return hashlib.sha256(json.dumps(case, sort_keys=True, default=str).encode()).hexdigest()[:16]


def case_rng(seed: int, pid: str, i: int) -> random.Random:
    return random.Random(f"{seed}:{pid}:{i}")


class HarnessError(Exception):
    """Raised by check code when the harness itself is at fault (never a verdict)."""


class CaseTimeout(BaseException):
    """A single case exceeded its wall-clock cap: inconclusive for that case, never a verdict."""


def _case_alarm(signum, frame):
    raise CaseTimeout()


CASE_LIMIT_S = 240.0


class Ctx:
    """Recorder handed to property code.  Never raises on a violation: it records."""

    def __init__(self, pid: str, tier: str, seed: int):
        self.pid, self.tier, self.seed = pid, tier, seed
        self.evaluations = 0
        self.counters: dict[str, int] = {}
        self.classes: dict[str, int] = {}
        self.digests: set[str] = set()
        self.digest_overflow = 0
        self.violations: list[dict] = []
        self.n_violating_cases = 0
        self.samples: list = []
        self.sample_classes: set[str] = set()
        self.harness_errors: list[str] = []
        self.extra: dict = {}
        # per case
        self._case = None
        self._case_viol = 0
        self._nontrivial = False
        self._gray = False

    # ---- per-case API -------------------------------------------------------------------
    def count(self, name: str, k: int = 1) -> None:
        self.counters[name] = self.counters.get(name, 0) + k

    def nontrivial(self, flag: bool = True) -> None:
        if flag:
            self._nontrivial = True

    def gray(self, why: str = "gray") -> None:
        self._gray = True
        self.count("gray:" + why)

    def violation(self, kind: str, msg: str, **detail) -> None:
        self._case_viol += 1
        self.count("violation:" + kind)
        if len(self.violations) < MAX_VIOL_KEPT or all(v["kind"] != kind for v in self.violations):
            self.violations.append({"kind": kind, "msg": str(msg)[:2000], "detail": detail, "case": self._case})

    def call(self, fn, *args, **kwargs):
        """Run repository code; returns (True, value) or (False, exception)."""
        try:
            return True, fn(*args, **kwargs)
        except Exception as e:  # noqa
            return False, e

    # ---- driver -------------------------------------------------------------------------
    def run_case(self, mod, case) -> None:
        self._case, self._case_viol, self._nontrivial, self._gray = case, 0, False, False
        self.evaluations += 1
        cls = str(case.get("cls", "?")) if isinstance(case, dict) else "?"
        self.classes[cls] = self.classes.get(cls, 0) + 1
        import signal
        limit = getattr(mod, "CASE_LIMIT_S", CASE_LIMIT_S)
        signal.signal(signal.SIGALRM, _case_alarm)
        signal.setitimer(signal.ITIMER_REAL, limit)
        try:
            mod.check(case, self)
        except CaseTimeout:
            self.count("case_timeouts")
            if len(self.extra.setdefault("timed_out_cases", [])) < 3:
                self.extra["timed_out_cases"].append(json.dumps(case, default=str)[:1500])
        except HarnessError as e:
            self.harness_errors.append(f"{e} case={json.dumps(case, default=str)[:500]}")
        except Exception:
            # An exception escaping check() is a harness problem by construction: repository
            # calls are made through ctx.call / explicit try blocks inside the property code.
            self.harness_errors.append(traceback.format_exc()[-1500:] + f" case={json.dumps(case, default=str)[:500]}")
        finally:
            signal.setitimer(signal.ITIMER_REAL, 0)
        if self._case_viol:
            self.n_violating_cases += 1
        if self._nontrivial:
            if len(self.digests) < DIGEST_CAP:
                self.digests.add(case_digest(case))
            else:
                self.digest_overflow += 1
        if cls not in self.sample_classes and len(self.samples) < 8:
            self.sample_classes.add(cls)
            self.samples.append(case)

    def result(self) -> dict:
        return {
            "evaluations": self.evaluations, "counters": self.counters, "classes": self.classes,
            "digests": sorted(self.digests), "digest_overflow": self.digest_overflow,
            "violations": self.violations, "n_violating_cases": self.n_violating_cases,
            "samples": self.samples, "harness_errors": self.harness_errors[:10],
            "n_harness_errors": len(self.harness_errors), "extra": self.extra,
        }


def load_prop(pid: str):
    return importlib.import_module(f"fv.props.{pid.lower()}")


# ------------------------------------------------------------------------------------------------
# shard worker (separate interpreter)
# ------------------------------------------------------------------------------------------------
def shard_main(argv: list[str]) -> int:
    pid, tier, seed, shard, nshards, out = argv[0], argv[1], int(argv[2]), int(argv[3]), int(argv[4]), argv[5]
    t0 = time.time()
    # private scratch / temp directory per shard (GEKKO litters TMPDIR; shards must not clean each other's files)
    scr = os.environ.get("FV_SCRATCH")
    if scr:
        import tempfile
        mine = os.path.join(scr, f"s{shard}")
        os.makedirs(mine, exist_ok=True)
        os.environ["TMPDIR"] = os.environ["FV_SCRATCH"] = mine
        tempfile.tempdir = mine
    activate_repo()
    mod = load_prop(pid)
    ctx = Ctx(pid, tier, seed)
    if hasattr(mod, "setup"):
        mod.setup(ctx)
    n = int(mod.CASES[tier] * float(os.environ.get("VERIF_SCALE", "1")))
    soft = getattr(mod, "SOFT_DEADLINE", {}).get(tier, 240 if tier == "quick" else 3000)
    truncated = False
    directed = list(mod.directed()) if hasattr(mod, "directed") else []
    # directed cases are dealt round-robin to shards
    for k, case in enumerate(directed):
        if k % nshards == shard:
            ctx.count("directed_cases")
            ctx.run_case(mod, case)
    for i in range(shard, n, nshards):
        if time.time() - t0 > soft:
            truncated = True
            break
        rng = case_rng(seed, pid, i)
        case = mod.generate(rng, tier, i)
        if case is None:
            ctx.count("generator_skipped")
            continue
        ctx.run_case(mod, case)
    if hasattr(mod, "finish"):
        mod.finish(ctx)
    res = ctx.result()
    res["truncated"] = truncated
    res["wall_s"] = time.time() - t0
    with open(out, "w") as f:
        json.dump(res, f, default=str)
    return 0


# ------------------------------------------------------------------------------------------------
# parent: run shards, fold, write evidence
# ------------------------------------------------------------------------------------------------
def load_known_findings() -> dict:
    p = os.path.join(VERIF, "known_findings.json")
    if not os.path.exists(p):
        return {"open": [], "fixed": []}
    with open(p) as f:
        return json.load(f)


def ensure_deps() -> None:
    deps = os.path.join(VERIF, ".deps")
    if os.path.isdir(os.path.join(deps, "icontract")):
        return
    subprocess.run(["/bin/sh", os.path.join(VERIF, "setup.sh")], check=False, stdout=subprocess.DEVNULL,
                   stderr=subprocess.DEVNULL, timeout=600)


def run_property(pid: str, tier: str, seed: int, replay: str | None = None) -> int:
    t0 = time.time()
    ensure_deps()
    if replay:
        return run_replay(pid, replay)
    activate_repo()
    mod = load_prop(pid)
    nshards = getattr(mod, "NSHARDS", {}).get(tier, min(16, os.cpu_count() or 1))
    scratch = os.path.join("/tmp", f"fv_{pid}_{os.getpid()}")
    os.makedirs(scratch, exist_ok=True)
    env = dict(os.environ)
    env["PYTHONHASHSEED"] = "0"
    env["PYTHONPATH"] = VERIF + os.pathsep + env.get("PYTHONPATH", "")
    env["TMPDIR"] = scratch
    env["FV_SCRATCH"] = scratch
    env.setdefault("MPLBACKEND", "Agg")
    env.setdefault("OMP_NUM_THREADS", "1")
    env.setdefault("OPENBLAS_NUM_THREADS", "1")
    env.setdefault("MKL_NUM_THREADS", "1")
    hard = getattr(mod, "WATCHDOG", {}).get(tier, 900 if tier == "quick" else 7200)

    def one(shard: int):
        out = os.path.join(scratch, f"shard{shard}.json")
        cmd = [sys.executable, "-m", "fv.main", "--shard", pid, tier, str(seed), str(shard), str(nshards), out]
        try:
            p = subprocess.run(cmd, env=env, timeout=hard, capture_output=True, text=True, cwd=VERIF)
        except subprocess.TimeoutExpired:
            return {"watchdog": True}
        if p.returncode != 0 or not os.path.exists(out):
            return {"crash": (p.stderr or "")[-3000:] + (p.stdout or "")[-500:]}
        with open(out) as f:
            return json.load(f)

    try:
        with ThreadPoolExecutor(max_workers=nshards) as ex:
            results = list(ex.map(one, range(nshards)))
    finally:
        subprocess.run(["rm", "-rf", scratch], check=False)
    return fold(mod, pid, tier, seed, results, time.time() - t0)


def fold(mod, pid: str, tier: str, seed: int, results: list[dict], wall: float) -> int:
    inconclusive: list[str] = []
    evaluations = 0
    counters: dict[str, int] = {}
    classes: dict[str, int] = {}
    digests: set[str] = set()
    overflow = 0
    violations: list[dict] = []
    n_viol_cases = 0
    samples: list = []
    extra: dict = {}
    harness_errors: list[str] = []
    truncated = 0
    for k, r in enumerate(results):
        if r.get("watchdog"):
            inconclusive.append(f"watchdog fired on shard {k}")
            continue
        if "crash" in r:
            inconclusive.append(f"shard {k} crashed: {r['crash'][-800:]}")
            continue
        evaluations += r["evaluations"]
        for a, b in r["counters"].items():
            counters[a] = counters.get(a, 0) + b
        for a, b in r["classes"].items():
            classes[a] = classes.get(a, 0) + b
        digests.update(r["digests"])
        overflow += r["digest_overflow"]
        violations.extend(r["violations"])
        n_viol_cases += r["n_violating_cases"]
        for s in r["samples"]:
            if len(samples) < 8 and all(s.get("cls") != t.get("cls") for t in samples if isinstance(t, dict) and isinstance(s, dict)):
                samples.append(s)
        harness_errors.extend(r["harness_errors"])
        if r["n_harness_errors"]:
            counters["harness_errors"] = counters.get("harness_errors", 0) + r["n_harness_errors"]
        truncated += 1 if r.get("truncated") else 0
        for a, b in r.get("extra", {}).items():
            if isinstance(b, (int, float)) and not isinstance(b, bool):
                extra[a] = extra.get(a, 0) + b
            elif isinstance(b, list):
                extra.setdefault(a, [])
                for x in b:
                    if x not in extra[a] and len(extra[a]) < 60:
                        extra[a].append(x)
            elif isinstance(b, dict):
                d = extra.setdefault(a, {})
                for kk, vv in b.items():
                    if isinstance(vv, (int, float)) and not isinstance(vv, bool):
                        d[kk] = d.get(kk, 0) + vv
                    else:
                        d.setdefault(kk, vv)
            else:
                extra.setdefault(a, b)

    # ---- classify violations against the committed known-findings file ------------------------
    kf = load_known_findings()
    open_kf = {f["id"]: f for f in kf.get("open", []) if f.get("property") == pid}
    known_hits: dict[str, int] = {}
    real: list[dict] = []
    for v in violations:
        fid = None
        if hasattr(mod, "classify"):
            try:
                fid = mod.classify(v["case"], v)
            except Exception:  # classifier trouble never hides a violation
                fid = None
        if fid is not None and fid in open_kf:
            known_hits[fid] = known_hits.get(fid, 0) + 1
        else:
            real.append(v)

    # ---- inconclusive conditions -------------------------------------------------------------
    if harness_errors:
        inconclusive.append(f"{counters.get('harness_errors', len(harness_errors))} harness error(s), first: {harness_errors[0][-700:]}")
    min_cases = getattr(mod, "MIN_CASES", {}).get(tier, 1)
    if evaluations < min_cases:
        inconclusive.append(f"only {evaluations} cases evaluated (< {min_cases})")
    for c in getattr(mod, "REQUIRED_CLASSES", []):
        if classes.get(c, 0) == 0:
            inconclusive.append(f"required input class '{c}' empty")
    for c in getattr(mod, "REQUIRED_COUNTERS", []):
        if counters.get(c, 0) == 0:
            inconclusive.append(f"deciding monitor '{c}' never evaluated")
    for c, least in getattr(mod, "MIN_COUNTERS", {}).get(tier, {}).items():
        if counters.get(c, 0) < least:
            inconclusive.append(f"monitor '{c}' evaluated only {counters.get(c, 0)} times (< {least})")
    if counters.get("case_timeouts", 0) > max(3, evaluations // 1000):
        inconclusive.append(f"{counters['case_timeouts']} cases exceeded the per-case time limit")
    distinct = len(digests)
    if distinct < 2:
        inconclusive.append("fewer than 2 distinct non-trivial cases")

    # ---- evidence ----------------------------------------------------------------------------
    rule = mod.RULE
    if overflow:
        rule += f" (distinct count is a lower bound: {overflow} further non-trivial cases were not hashed after the per-shard cap)"
    coverage = {
        "evaluations": evaluations,
        "distinct_nontrivial": distinct,
        "rule": rule,
        "samples": samples[:8] if samples else [],
        "class_histogram": dict(sorted(classes.items())),
        "monitor_counters": dict(sorted(counters.items())),
        "shards": len(results),
        "shards_truncated_by_soft_deadline": truncated,
        "known_findings_encountered": known_hits,
        "inconclusive_reasons": inconclusive,
    }
    if getattr(mod, "EXHAUSTIVE", {}).get(tier):
        coverage["exhaustive"] = True
        coverage["exhaustive_scope"] = mod.EXHAUSTIVE[tier]
    coverage.update(extra)
    ev = {
        "property_id": pid, "tier": tier, "seed": seed, "level": "exploration",
        "coverage": coverage,
        "assumptions": list(getattr(mod, "ASSUMPTIONS", [])),
        "wall_s": round(wall, 2),
        "violations": len(real) if not real else n_viol_cases,
        "verdict": "violated" if real else ("inconclusive" if inconclusive else "held_on_observed"),
        "repo": repo_path(),
    }
    os.makedirs(os.path.join(VERIF, "evidence"), exist_ok=True)
    evp = os.environ.get("VERIF_EVIDENCE_DIR", os.path.join(VERIF, "evidence"))
    os.makedirs(evp, exist_ok=True)
    with open(os.path.join(evp, f"{pid}.json"), "w") as f:
        json.dump(ev, f, indent=1, default=str)
        f.write("\n")
    if tier == "thorough":      # keep the deepest exploration next to the latest run (the latter is rewritten by every quick run)
        os.makedirs(os.path.join(evp, "thorough"), exist_ok=True)
        with open(os.path.join(evp, "thorough", f"{pid}.json"), "w") as f:
            json.dump(ev, f, indent=1, default=str)
            f.write("\n")

    # ---- report ------------------------------------------------------------------------------
    print(f"[{pid}] tier={tier} seed={seed} cases={evaluations} distinct_nontrivial={distinct} "
          f"wall={wall:.1f}s classes={len(classes)}")
    for name in sorted(counters):
        if name.startswith(("violation:", "gray:")) or name in getattr(mod, "REQUIRED_COUNTERS", []):
            print(f"[{pid}]   {name} = {counters[name]}")
    for fid, f in open_kf.items():
        hits = known_hits.get(fid, 0)
        print(f"KNOWN-FINDING: property={pid} {f['what']} [id={fid}; reproduced {hits}x in this run]")
    if real:
        rdir = os.path.join(VERIF, "replays", pid)
        os.makedirs(rdir, exist_ok=True)
        seen_kinds: dict[str, int] = {}
        for v in real:
            seen_kinds[v["kind"]] = seen_kinds.get(v["kind"], 0) + 1
            if seen_kinds[v["kind"]] > 3:
                continue
            path = os.path.join(rdir, case_digest([v["case"], v["kind"]]) + ".json")
            with open(path, "w") as f:
                json.dump({"property": pid, "kind": v["kind"], "msg": v["msg"], "detail": v["detail"],
                           "case": v["case"]}, f, indent=1, default=str)
            print(f"VIOLATION property={pid} replay={path}")
            print(f"[{pid}]   kind={v['kind']} :: {v['msg'][:300]}")
        print(f"[{pid}] {n_viol_cases} violating case(s); kinds: {seen_kinds}")
        return 1
    if inconclusive:
        for why in inconclusive:
            print(f"INCONCLUSIVE property={pid} reason={why}")
        return 3
    print(f"[{pid}] held on everything observed")
    return 0


def run_replay(pid: str, path: str) -> int:
    activate_repo()
    mod = load_prop(pid)
    with open(path) as f:
        doc = json.load(f)
    case = doc["case"] if "case" in doc else doc
    ctx = Ctx(pid, "quick", 0)
    if hasattr(mod, "setup"):
        mod.setup(ctx)
    ctx.run_case(mod, case)
    for e in ctx.harness_errors:
        print("HARNESS ERROR:", e)
    kf = load_known_findings()
    open_kf = {f["id"] for f in kf.get("open", []) if f.get("property") == pid}
    rc = 0
    for v in ctx.violations:
        fid = mod.classify(v["case"], v) if hasattr(mod, "classify") else None
        if fid in open_kf:
            print(f"KNOWN-FINDING: property={pid} id={fid} :: {v['msg'][:300]}")
        else:
            print(f"VIOLATION property={pid} replay={path}")
            print(f"  kind={v['kind']} :: {v['msg']}")
            rc = 1
    if rc == 0:
        print(f"[{pid}] replay: no violation")
    return rc
