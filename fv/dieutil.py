"""Helpers that drive the real Die / Netlist code the way a fresh process would."""
from __future__ import annotations

import os

from fv.gen import dies as gd

_tmp_counter = [0]


def fresh_tolerance():
    from frame.geometry.geometry import Rectangle
    Rectangle.undefine_epsilon()


def build_die(d: dict, entry: str = "tree"):
    """returns (die, netlist).  Raises whatever the repository raises."""
    from frame.die.die import Die
    from frame.netlist.netlist import Netlist
    fresh_tolerance()
    nl = None
    nt = gd.netlist_tree_for_fixed(d.get("fixed") or {})
    if d.get("netlist") is not None:
        nt = d["netlist"]
    if nt is not None:
        nl = Netlist(nt)
        if d.get("assign"):
            nl.assign_rectangles({k: [list(r) for r in v] for k, v in d["assign"].items()})
        for name in d.get("release") or []:
            nl.get_module(name).is_fixed = False      # a fixed module released through the public setter before the die is built
    if entry == "string":
        src = f"{gd.yaml_num(d['W'])}x{gd.yaml_num(d['H'])}"
    elif entry == "text":
        src = gd.die_text(d)
    elif entry == "handle":
        import io
        src = io.StringIO(gd.die_text(d))
    elif entry == "file":
        scratch = os.environ.get("FV_SCRATCH", "/tmp")
        _tmp_counter[0] += 1
        path = os.path.join(scratch, f"die_{os.getpid()}.yaml")      # the same path every time: rewritten files must be read as they are now
        with open(path, "w") as f:
            f.write(gd.die_text(d))
        try:
            return Die(path, nl), nl
        finally:
            os.remove(path)
    elif entry == "tree_numpy":
        # the same tree with its numbers as numpy.float64 (what a numpy-based generator hands over) / Python ints where the value allows
        import numpy as np

        def conv(v, k):
            if isinstance(v, bool) or not isinstance(v, (int, float)):
                return v
            if k % 3 == 0:
                return np.float64(v)
            if k % 3 == 1 and float(v).is_integer():
                return int(v)
            return np.float64(v)
        t = gd.die_tree(d)
        k0 = int(d["W"] * 7) % 5
        src = {}
        for key, val in t.items():
            if key == "regions":
                src[key] = [[conv(v, k0 + i + j) for j, v in enumerate(r)] for i, r in enumerate(val)]
            else:
                src[key] = conv(val, k0 + len(src))
    else:
        src = gd.die_tree(d)
    return Die(src, nl), nl


def rect_key(r):
    return (r.center.x, r.center.y, r.shape.w, r.shape.h, r.region)
