"""Exact rational plane geometry used by all geometric oracles.

A FRAME Rectangle is (centre, shape) in floats; the rectangle it *denotes* is the real-number
rectangle centre +- shape/2 with every float taken at its exact rational value.  All oracle
quantities are computed in fractions.Fraction from those values; the code's float answers are
compared with tolerances far above rounding noise and far below any generated feature."""
from __future__ import annotations

from fractions import Fraction as F


class XR:
    """exact axis-parallel rectangle [x0,x1] x [y0,y1]"""
    __slots__ = ("x0", "x1", "y0", "y1")

    def __init__(self, x0, x1, y0, y1):
        self.x0, self.x1, self.y0, self.y1 = F(x0), F(x1), F(y0), F(y1)

    @staticmethod
    def from_cwh(cx, cy, w, h) -> "XR":
        cx, cy, w, h = F(cx), F(cy), F(w), F(h)
        return XR(cx - w / 2, cx + w / 2, cy - h / 2, cy + h / 2)

    @staticmethod
    def of(rect) -> "XR":
        """from a repository Rectangle object"""
        return XR.from_cwh(rect.center.x, rect.center.y, rect.shape.w, rect.shape.h)

    @property
    def w(self):
        return self.x1 - self.x0

    @property
    def h(self):
        return self.y1 - self.y0

    @property
    def area(self):
        return self.w * self.h

    @property
    def cx(self):
        return (self.x0 + self.x1) / 2

    @property
    def cy(self):
        return (self.y0 + self.y1) / 2

    def inter_wh(self, o: "XR"):
        """signed common extent in x and y (negative = gap)"""
        return min(self.x1, o.x1) - max(self.x0, o.x0), min(self.y1, o.y1) - max(self.y0, o.y0)

    def inter_area(self, o: "XR"):
        iw, ih = self.inter_wh(o)
        return iw * ih if iw > 0 and ih > 0 else F(0)

    def inside_margin(self, o: "XR"):
        """min signed distance by which self is inside o (negative = sticks out)"""
        return min(self.x0 - o.x0, o.x1 - self.x1, self.y0 - o.y0, o.y1 - self.y1)

    def contains_point(self, x, y, slack=0) -> bool:
        return self.x0 - slack <= x <= self.x1 + slack and self.y0 - slack <= y <= self.y1 + slack

    def as_floats(self):
        return [float(self.x0), float(self.x1), float(self.y0), float(self.y1)]

    def __repr__(self):
        return f"XR[{float(self.x0)},{float(self.x1)}]x[{float(self.y0)},{float(self.y1)}]"


def union_area(rects: list[XR]) -> F:
    """exact area of the union (coordinate compression)"""
    if not rects:
        return F(0)
    xs = sorted({r.x0 for r in rects} | {r.x1 for r in rects})
    ys = sorted({r.y0 for r in rects} | {r.y1 for r in rects})
    tot = F(0)
    for i in range(len(xs) - 1):
        xm = (xs[i] + xs[i + 1]) / 2
        col = [r for r in rects if r.x0 < xm < r.x1]
        if not col:
            continue
        for j in range(len(ys) - 1):
            ym = (ys[j] + ys[j + 1]) / 2
            if any(r.y0 < ym < r.y1 for r in col):
                tot += (xs[i + 1] - xs[i]) * (ys[j + 1] - ys[j])
    return tot


def tiling_report(pieces: list[XR], container: XR, scale: float) -> list[str]:
    """problems (empty = pieces tile the container exactly, up to 1e-9 relative tolerances)"""
    tl = F(1e-9) * F(scale)
    ta = F(1e-9) * F(scale) * F(scale)
    out = []
    for k, p in enumerate(pieces):
        if p.inside_margin(container) < -tl:
            out.append(f"piece {k} {p} leaves {container} by {float(-p.inside_margin(container))}")
    n = len(pieces)
    if n <= 400:
        for i in range(n):
            for j in range(i + 1, n):
                a = pieces[i].inter_area(pieces[j])
                if a > ta:
                    iw, ih = pieces[i].inter_wh(pieces[j])
                    if min(iw, ih) > tl:
                        out.append(f"pieces {i} and {j} overlap by area {float(a)}: {pieces[i]} {pieces[j]}")
    s = sum((p.area for p in pieces), F(0))
    if abs(s - container.area) > ta * max(1, n):
        out.append(f"areas sum to {float(s)}, container area {float(container.area)}")
    return out[:6]
