"""Seeded generator of die descriptions (valid by construction in index space, or with one
injected defect by a clear margin)."""
from __future__ import annotations

from fractions import Fraction as F

from fv.gen import geo

TAGS = ["#", "#", "LUT", "DSP", "BRAM", "fixed", "BRAM_36k", "_dsp", "io_1"]
STRUCTS = ["empty", "full_cover", "ring", "border", "corners", "chain", "tjunction", "single_gap", "random", "random", "random"]
INVALID = ["overlap", "outside", "ground_tag", "nonpositive", "unknown_key", "missing_dim", "bad_tag", "overlap_fixed"]


def yaml_num(x: float) -> str:
    if float(x).is_integer() and abs(x) < 1e15:
        return str(int(x)) if abs(x) < 1e6 else repr(float(x))
    return repr(float(x))


def die_text(d: dict) -> str:
    lines = []
    if d.get("W") is not None:
        lines.append(f"width: {yaml_num(d['W'])}")
    if d.get("H") is not None:
        lines.append(f"height: {yaml_num(d['H'])}")
    if d["regions"]:
        rs = ", ".join("[" + ", ".join(yaml_num(v) for v in r[:4]) + f", '{r[4]}']" for r in d["regions"])
        lines.append(f"regions: [{rs}]")
    for k, v in d.get("extra_keys", {}).items():
        lines.append(f"{k}: {v}")
    return "\n".join(lines) + "\n"


def die_tree(d: dict) -> dict:
    t = {}
    if "W" in d and d["W"] is not None:
        t["width"] = d["W"]
    if "H" in d and d["H"] is not None:
        t["height"] = d["H"]
    if d["regions"]:
        t["regions"] = [list(r) for r in d["regions"]]
    t.update(d.get("extra_keys", {}))
    return t


def netlist_tree_for_fixed(fixed: dict) -> dict | None:
    if not fixed:
        return None
    # a module with a single rectangle may be written in the flat form `rectangles: [x, y, w, h]` (every second one is)
    return {"Modules": {name: {"fixed": True, "rectangles": (list(rects[0]) if len(rects) == 1 and k % 2 else [list(r) for r in rects])}
                        for k, (name, rects) in enumerate(fixed.items())}}


def _index_layout(rng, struct: str, nx: int, ny: int) -> list[tuple[int, int, int, int]]:
    if struct == "empty":
        return []
    if struct == "full_cover":
        out: list = []
        geo.guillotine(rng, 0, nx, 0, ny, 4, out, stop=0.15)
        return out[:10] if len(out) <= 10 else [(0, nx, 0, ny)]
    if struct == "ring" and nx >= 3 and ny >= 3:
        i0, j0 = rng.randint(0, nx - 3), rng.randint(0, ny - 3)
        i1, j1 = rng.randint(i0 + 3, nx), rng.randint(j0 + 3, ny)
        t = 1
        return [(i0, i1, j0, j0 + t), (i0, i1, j1 - t, j1), (i0, i0 + t, j0 + t, j1 - t), (i1 - t, i1, j0 + t, j1 - t)]
    if struct == "border":
        out = []
        if rng.random() < 0.7:
            out.append((0, rng.randint(1, nx), 0, 1))
        if rng.random() < 0.7 and ny > 1:
            out.append((0, 1, 1, rng.randint(2, ny) if ny >= 2 else ny))
        if rng.random() < 0.7 and nx > 1 and ny > 1:
            out.append((nx - 1, nx, ny - 1 - rng.randint(0, ny - 2), ny))
        return out
    if struct == "corners" and nx >= 2 and ny >= 2:
        return [(0, 1, 0, 1), (nx - 1, nx, 0, 1), (0, 1, ny - 1, ny), (nx - 1, nx, ny - 1, ny)][:rng.randint(1, 4)]
    if struct == "chain":
        out, i, j = [], 0, 0
        while i < nx and j < ny and len(out) < 8:
            w, h = rng.randint(1, 2), rng.randint(1, 2)
            if i + w > nx or j + h > ny:
                break
            out.append((i, i + w, j, j + h))
            if rng.random() < 0.5:
                i += w
            else:
                j += h
        return out
    if struct == "tjunction" and nx >= 3 and ny >= 2:
        m = rng.randint(1, nx - 2)
        return [(0, m, 0, 1), (m, nx, 0, 1), (max(0, m - 1), min(nx, m + 1), 1, 2)]
    if struct == "single_gap" and nx >= 3 and ny >= 3:
        gi, gj = rng.randint(1, nx - 2), rng.randint(1, ny - 2)
        return [(0, nx, 0, gj), (0, nx, gj + 1, ny), (0, gi, gj, gj + 1), (gi + 1, nx, gj, gj + 1)]
    return geo.place_index_rects(rng, nx, ny, rng.randint(1, 8))


def gen_die(rng, max_n: int = 12, allow_fixed: bool = True, struct: str | None = None, fam: str | None = None) -> dict:
    """valid die description.  keys: fam, W, H, regions [[cx,cy,w,h,tag]], fixed {name: [[cx,cy,w,h]]},
    struct, nx, ny, index (index rectangles, for the harness only)"""
    fam = fam or geo.pick_family(rng)
    nx, ny = rng.randint(1, max_n), rng.randint(1, max_n)
    sc = rng.choice([1.0, 1.0, 10.0, 1e3, 1e-3])
    xs = geo.make_axis(rng, fam, nx, scale=sc)
    ys = geo.make_axis(rng, fam, ny, scale=sc)
    struct = struct or rng.choice(STRUCTS)
    idx = _index_layout(rng, struct, nx, ny)
    regions, fixed_rects = [], []
    tags = TAGS if allow_fixed else [t for t in TAGS if t != "fixed"]
    for (i0, i1, j0, j1) in idx:
        tag = rng.choice(tags)
        spec = geo.cwh(xs[i0], xs[i1], ys[j0], ys[j1])
        if tag == "fixed":
            fixed_rects.append(spec)
        else:
            regions.append(spec + [tag])
    fixed: dict = {}
    k = 0
    while fixed_rects:
        take = 1 if rng.random() < 0.6 else 2
        fixed[f"F{k}"] = fixed_rects[:take]
        fixed_rects = fixed_rects[take:]
        k += 1
    return {"fam": fam, "W": geo.fl(xs[-1]), "H": geo.fl(ys[-1]), "regions": regions, "fixed": fixed, "struct": struct,
            "nx": nx, "ny": ny, "xs": [geo.fl(x) for x in xs], "ys": [geo.fl(y) for y in ys],
            "index": [list(t) for t in idx]}


def inject_defect(rng, d: dict, defect: str) -> dict | None:
    """returns a copy of d with one defect by a clear margin (None when it cannot be injected)"""
    import copy
    d = copy.deepcopy(d)
    xs, ys = d["xs"], d["ys"]
    nx, ny = d["nx"], d["ny"]
    d["defect"] = defect
    if defect in ("overlap", "overlap_fixed"):
        pool = d["regions"] if defect == "overlap" else [r for rs in d["fixed"].values() for r in rs]
        if not pool or (defect == "overlap_fixed" and not pool):
            return None
        r = rng.choice(pool)
        # a new region covering at least a quarter of r (>= 1% of everything by construction)
        w, h = r[2] * rng.choice([0.5, 1.0, 0.75]), r[3] * rng.choice([0.5, 1.0, 0.75])
        cx = r[0] - r[2] / 2 + w / 2 if rng.random() < 0.5 else r[0] + r[2] / 2 - w / 2
        cy = r[1] - r[3] / 2 + h / 2 if rng.random() < 0.5 else r[1] + r[3] / 2 - h / 2
        d["regions"].append([cx, cy, w, h, rng.choice(["#", "LUT"])])
    elif defect == "outside":
        side = rng.choice("EN" if rng.random() < 0.7 else "WS")
        cellw, cellh = (xs[-1] - xs[0]) / nx, (ys[-1] - ys[0]) / ny
        # occupy a free strip? simplest: a region overlapping nothing inside is not guaranteed, so use an
        # empty die base to keep the defect single
        d["regions"], d["fixed"] = [], {}
        if side == "E":
            d["regions"].append([d["W"] - cellw / 2 + cellw / 2, d["H"] / 2, 2 * cellw, cellh, "#"])
        elif side == "N":
            d["regions"].append([d["W"] / 2, d["H"], cellw, 2 * cellh, "LUT"])
        elif side == "W":
            d["regions"].append([0.0, d["H"] / 2, cellw, cellh, "#"])
        else:
            d["regions"].append([d["W"] / 2, 0.0, cellw, cellh, "#"])
    elif defect == "ground_tag":
        if not d["regions"]:
            return None
        rng.choice(d["regions"])[4] = "_"
    elif defect == "nonpositive":
        if not d["regions"]:
            return None
        r = rng.choice(d["regions"])
        r[rng.choice([2, 3])] = rng.choice([0, 0.0, -1.0])
    elif defect == "unknown_key":
        d["extra_keys"] = {rng.choice(["depth", "name", "Width", "region"]): 3}
    elif defect == "missing_dim":
        d[rng.choice(["W", "H"])] = None
    elif defect == "bad_tag":
        if not d["regions"]:
            return None
        rng.choice(d["regions"])[4] = rng.choice(["9lives", "a-b", "", "two words"])
    return d
