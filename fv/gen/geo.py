"""Seeded generators of coordinates, lattices and rectangles.

Coordinates 'not exactly representable in binary' are produced the way a user produces them: as
decimal values (exact Fractions of decimal literals) converted with float() exactly like the YAML
loader does - never as k*0.1 in float arithmetic."""
from __future__ import annotations

import math
from fractions import Fraction as F

FAMILIES = {
    "int": F(1), "half": F(1, 2), "quarter": F(1, 4), "dec_0.1": F(1, 10), "dec_0.01": F(1, 100),
    "dec_0.05": F(1, 20), "third_0.3": F(3, 10), "third_0.7": F(7, 10), "large_1e3": F(1000),
    "small_1e-3": F(1, 1000), "odd_1234.567": F(1234567, 1000), "tiny_3.3e-5": F(33, 1000000),
}
FAMILY_NAMES = list(FAMILIES) + ["float53"]


def fl(x) -> float:
    return float(x)


def pick_family(rng) -> str:
    return rng.choice(FAMILY_NAMES)


def make_axis(rng, family: str, n: int, uniform: bool | None = None, origin: F = F(0), scale: float | None = None) -> list[F]:
    """n+1 increasing cut positions (exact values).  float53: every cut is exactly a float."""
    if family == "float53":
        if scale is None:
            scale = rng.choice([1.0, 1.0, 10.0, 1e3, 1e-3])
        pts = {0.0} if origin == 0 else {float(origin)}
        while len(pts) < n + 1:
            pts.add(float(origin) + rng.random() * scale * n)
        pts = sorted(pts)
        # guarantee separation >= 1e-3 of the extent
        ext = pts[-1] - pts[0]
        ok = all(pts[i + 1] - pts[i] >= 1e-3 * ext for i in range(n))
        # the extent itself must be commensurate with the scale (one scale per document): a single random cut can land 1e-5 from the
        # origin, and the other axis would then be 1e5 times longer - the reader's tolerance (1e-12 x smallest feature) drowns in rounding noise
        ok = ok and ext >= 0.05 * scale * n
        if not ok:
            pts = [float(origin) + (k * scale) + (rng.random() * 0.5 * scale if 0 < k else 0.0) for k in range(n + 1)]
        return [F(p) for p in pts]
    step = FAMILIES[family]
    if uniform is None:
        uniform = rng.random() < 0.5
    if uniform:
        return [origin + step * k for k in range(n + 1)]
    pos, out = 0, [origin]
    for _ in range(n):
        pos += rng.choice([1, 1, 1, 2, 3, 5])
        out.append(origin + step * pos)
    return out


def cwh(x0: F, x1: F, y0: F, y1: F) -> list[float]:
    """[cx, cy, w, h] as the floats nearest to the exact values (what a decimal document contains)"""
    return [fl((x0 + x1) / 2), fl((y0 + y1) / 2), fl(x1 - x0), fl(y1 - y0)]


def place_index_rects(rng, nx: int, ny: int, k: int, max_frac: float = 0.6) -> list[tuple[int, int, int, int]]:
    """up to k pairwise-disjoint index rectangles (i0,i1,j0,j1), i1/j1 exclusive, by rejection"""
    occ = [[False] * ny for _ in range(nx)]
    out = []
    tries = 0
    while len(out) < k and tries < 40 * k + 40:
        tries += 1
        w = rng.randint(1, max(1, int(nx * max_frac)))
        h = rng.randint(1, max(1, int(ny * max_frac)))
        i0 = rng.randint(0, nx - w)
        j0 = rng.randint(0, ny - h)
        if any(occ[i][j] for i in range(i0, i0 + w) for j in range(j0, j0 + h)):
            continue
        for i in range(i0, i0 + w):
            for j in range(j0, j0 + h):
                occ[i][j] = True
        out.append((i0, i0 + w, j0, j0 + h))
    return out


def guillotine(rng, i0, i1, j0, j1, depth, out, stop=0.25):
    """random guillotine partition of an index rectangle into index rectangles"""
    w, h = i1 - i0, j1 - j0
    if depth <= 0 or (w <= 1 and h <= 1) or rng.random() < stop:
        out.append((i0, i1, j0, j1))
        return
    if (w > 1 and rng.random() < 0.5) or h <= 1:
        c = rng.randint(i0 + 1, i1 - 1)
        guillotine(rng, i0, c, j0, j1, depth - 1, out, stop)
        guillotine(rng, c, i1, j0, j1, depth - 1, out, stop)
    else:
        c = rng.randint(j0 + 1, j1 - 1)
        guillotine(rng, i0, i1, j0, c, depth - 1, out, stop)
        guillotine(rng, i0, i1, c, j1, depth - 1, out, stop)


def ulps(x: float, k: int) -> float:
    for _ in range(abs(k)):
        x = math.nextafter(x, math.inf if k > 0 else -math.inf)
    return x
