"""Seeded generator of netlist documents (plain dict trees + YAML text), covering every attribute
combination the reader accepts; and of netlists compatible with a generated die (C03/C10)."""
from __future__ import annotations

from fractions import Fraction as F

from fv.gen import geo
from fv.gen.dies import yaml_num

REGION_NAMES = ["LUT", "DSP", "BRAM", "URAM", "BRAM_36k", "_io"]
WEIGHTS = [None, None, 1, 2, 5, 0.5, 2.5, 0.001, 1e6, 1.0, 3.75]


def stog_rects(rng, fam: str, origin=(F(0), F(0)), max_branches=3, n=6, sc: float | None = None) -> list[list[float]]:
    sc = sc if sc is not None else rng.choice([1.0, 1.0, 10.0, 1e3, 1e-3])
    xs = geo.make_axis(rng, fam, 3 * n, origin=origin[0], scale=sc)
    ys = geo.make_axis(rng, fam, 3 * n, origin=origin[1], scale=sc)
    ti0, ti1 = n, n + rng.randint(2, n)
    tj0, tj1 = n, n + rng.randint(2, n)
    ex = [(xs[ti0], xs[ti1], ys[tj0], ys[tj1])]
    for side in "NSEW":
        k = rng.choice([0, 0, 1, 1, 2, max_branches]) if max_branches else 0
        lo, hi = (ti0, ti1) if side in "NS" else (tj0, tj1)
        cuts = sorted(set(rng.sample(range(lo, hi + 1), min(2 * k, hi - lo + 1))))
        for a, b in zip(cuts[0::2], cuts[1::2]):
            d = rng.randint(1, n - 1)
            if side == "N":
                ex.append((xs[a], xs[b], ys[tj1], ys[tj1 + d]))
            elif side == "S":
                ex.append((xs[a], xs[b], ys[tj0 - d], ys[tj0]))
            elif side == "E":
                ex.append((xs[ti1], xs[ti1 + d], ys[a], ys[b]))
            else:
                ex.append((xs[ti0 - d], xs[ti0], ys[a], ys[b]))
    return [geo.cwh(*e) for e in ex]


def disjoint_rects(rng, fam: str, k: int, sc: float | None = None) -> list[list[float]]:
    sc = sc if sc is not None else rng.choice([1.0, 10.0, 1e3, 1e-3])
    xs = geo.make_axis(rng, fam, 8, scale=sc)
    ys = geo.make_axis(rng, fam, 8, scale=sc)
    idx = geo.place_index_rects(rng, 8, 8, k, max_frac=0.5)
    return [geo.cwh(xs[a], xs[b], ys[c], ys[d]) for (a, b, c, d) in idx]


def _num(rng, v: float):
    """sometimes an int, sometimes a float (documents contain both)"""
    if float(v).is_integer() and rng.random() < 0.5 and abs(v) < 1e9:
        return int(v)
    return v


def unit_of(fam: str, sc: float) -> float:
    """typical feature size of a document of this family/scale: all magnitudes of one document are commensurate
    (the reader's tolerance, 1e-12 x the smallest feature, presupposes a bounded dynamic range)"""
    return sc if fam == "float53" else float(geo.FAMILIES[fam])


def _area(rng, unit: float = 1.0):
    r = rng.random()
    if r < 0.4:
        v = float(rng.randint(1, 100))
    elif r < 0.8:
        v = round(rng.uniform(0.3, 50), rng.choice([1, 2, 3]))
    else:
        v = rng.choice([0.25, 64.0, 0.7, 12.345])
    v = v * unit * unit
    return _num(rng, float(repr(v))) if unit == 1.0 else float(f"{v:.6g}")


def _coord(rng, unit: float):
    v = round(rng.uniform(0, 100), rng.choice([0, 1, 2])) * unit
    return _num(rng, float(f"{v:.8g}"))


def gen_module(rng, fam: str, kind: str, sc: float = 1.0) -> dict:
    m: dict = {}
    unit = unit_of(fam, sc)
    if kind == "soft":
        r = rng.random()
        if r < 0.5:
            m["area"] = _area(rng, unit)
        elif r < 0.65:
            m["area"] = {"_": _area(rng, unit)}
        else:
            regs = rng.sample(REGION_NAMES, rng.randint(1, 3))
            m["area"] = {g: _area(rng, unit) for g in regs}
            if rng.random() < 0.4:
                m["area"]["_"] = _area(rng, unit)
        if rng.random() < 0.6:
            m["center"] = [_coord(rng, unit), _coord(rng, unit)]
        r = rng.random()
        if r < 0.15:
            m["aspect_ratio"] = rng.choice([0.5, 0.25, 0.3, 1, 0.8, round(rng.uniform(0.05, 1), 2), round(rng.uniform(0.05, 1), 2)])
        elif r < 0.3:
            m["aspect_ratio"] = rng.choice([2, 3, 1.5, 4.0, round(rng.uniform(1, 9), 1), round(rng.uniform(1, 5), 2)])
        elif r < 0.45:
            m["aspect_ratio"] = [rng.choice([0, 0.2, 0.5, 1, round(rng.uniform(0, 1), 2)]), rng.choice([1, 2, 3.5, round(rng.uniform(1, 6), 2)])]
            if rng.random() < 0.3:       # a pair that is (almost) reciprocal
                x = round(rng.uniform(1, 6), 2)
                m["aspect_ratio"] = [1 / x, x]
        if rng.random() < 0.35:
            rects = stog_rects(rng, fam, max_branches=2, sc=sc) if rng.random() < 0.6 else disjoint_rects(rng, fam, rng.randint(1, 3), sc=sc)
            if rng.random() < 0.5:
                for rc in rects:
                    if rng.random() < 0.6:
                        rc.append(rng.choice(REGION_NAMES))
            m["rectangles"] = rects if len(rects) > 1 or rng.random() < 0.5 else rects[0]
        if rng.random() < 0.08:
            m[rng.choice(["flip", "fixed", "hard"])] = False
    elif kind in ("hard", "flip", "fixed"):
        if kind == "flip" or rng.random() < 0.7:
            rects = stog_rects(rng, fam, max_branches=rng.choice([0, 1, 2, 3]), sc=sc)[:5]
            # dropping branches keeps a single-trunk orthogon
        else:
            rects = disjoint_rects(rng, fam, rng.randint(1, 4), sc=sc)
        m["rectangles"] = rects if len(rects) > 1 or rng.random() < 0.5 else rects[0]
        if kind == "fixed":
            m["fixed"] = True
        else:
            m["hard"] = True
            if kind == "flip":
                m["flip"] = True
            elif rng.random() < 0.1:
                m["flip"] = False
            elif rng.random() < 0.1:
                m["terminal"] = False
    elif kind == "terminal":
        m["terminal"] = True
        r = rng.random()
        if r < 0.6:
            m["center"] = [_coord(rng, unit), _coord(rng, unit)]
        if r < 0.2:
            m["fixed"] = True      # fixed terminal must have a centre
        if rng.random() < 0.3:
            keys = list(m.items())
            rng.shuffle(keys)
            m = dict(keys)
    return m


def gen_netlist_doc(rng, max_modules: int = 10, max_nets: int = 10, kinds=None, need_centers: bool = False) -> dict:
    fam = geo.pick_family(rng)
    sc = rng.choice([1.0, 1.0, 10.0, 1e3, 1e-3])
    n = rng.randint(1, max_modules)
    kinds = kinds or ["soft", "soft", "soft", "hard", "flip", "fixed", "terminal"]
    mods: dict = {}
    names = [rng.choice(["M", "blk", "_x", "Core", "u"]) + str(i) + rng.choice(["", "_a", "B"]) for i in range(n)]
    if rng.random() < 0.1:
        # legal identifiers that older YAML dialects read as booleans / nulls
        for k, w in enumerate(rng.sample(["NO", "Yes", "on", "Off", "y", "N", "No", "ON"], min(n, rng.randint(1, 3)))):
            names[k] = w
    if rng.random() < 0.08:
        # legal identifiers that Python's float() would parse
        for k, w in enumerate(rng.sample(["inf", "nan", "Infinity", "NaN", "INF", "e5", "infinity"], min(n, rng.randint(1, 2)))):
            names[n - 1 - k] = w
    for name in names:
        kind = rng.choice(kinds)
        m = gen_module(rng, fam, kind, sc)
        if need_centers and kind in ("soft", "terminal") and "center" not in m and "rectangles" not in m:
            m["center"] = [_coord(rng, unit_of(fam, sc)), _coord(rng, unit_of(fam, sc))]
        mods[name] = m
    nets = []
    if n >= 2:
        for _ in range(rng.randint(0, max_nets)):
            k = rng.randint(2, min(6, n))
            e: list = rng.sample(names, k)
            if rng.random() < 0.12:
                e.insert(rng.randint(0, len(e)), rng.choice(e))      # two pins on the same module: a member listed twice
            w = rng.choice(WEIGHTS)
            if w is not None:
                e.append(w)
            nets.append(e)
    doc: dict = {"Modules": mods}
    if nets or rng.random() < 0.5:
        doc["Nets"] = nets
    return doc


# ---------------------------------------------------------------------------------------------
# YAML text
# ---------------------------------------------------------------------------------------------
def _val(v, flow: bool) -> str:
    if isinstance(v, bool):
        return "true" if v else "false"
    if isinstance(v, (int, float)):
        return yaml_num(v) if isinstance(v, float) else str(v)
    if isinstance(v, str):
        return v
    if isinstance(v, list):
        return "[" + ", ".join(_val(x, True) for x in v) + "]"
    if isinstance(v, dict):
        return "{" + ", ".join(f"{k}: {_val(x, True)}" for k, x in v.items()) + "}"
    raise TypeError(type(v))


def doc_text(doc: dict, flow: bool = False) -> str:
    out = ["Modules: {"] if False else []
    out.append("Modules:")
    for name, m in doc["Modules"].items():
        if flow:
            out.append(f"  {name}: {_val(m, True)}")
        else:
            out.append(f"  {name}:")
            for k, v in m.items():
                out.append(f"    {k}: {_val(v, True)}")
            if not m:
                out[-1] = f"  {name}: {{}}"
    if "Nets" in doc:
        if doc["Nets"]:
            out.append("Nets:")
            for e in doc["Nets"]:
                out.append(f"  - {_val(e, True)}")
        else:
            out.append("Nets: []")
    for k, v in doc.items():
        if k not in ("Modules", "Nets"):
            out.append(f"{k}: {_val(v, True)}")
    return "\n".join(out) + "\n"


# ---------------------------------------------------------------------------------------------
# netlists compatible with a generated die (C03 / C10 / C19)
# ---------------------------------------------------------------------------------------------
def gen_compatible(rng, die: dict, max_modules: int = 8, kinds=("soft", "soft", "softrect", "hard"), terminals: bool = False,
                   inside_only: bool = False) -> dict:
    """die: dict from gen.dies.gen_die (uses its lattice xs/ys).  Fixed modules are taken from die['fixed']."""
    xs, ys = [F(x) for x in die["xs"]], [F(y) for y in die["ys"]]
    nx, ny = len(xs) - 1, len(ys) - 1
    stepx, stepy = (xs[-1] - xs[0]) / nx, (ys[-1] - ys[0]) / ny
    # extended lattice: two cells beyond the die on each side that exists (coordinates must stay >= 0)
    ext = 0 if inside_only else 2
    exs = xs + [xs[-1] + stepx * k for k in range(1, ext + 1)]
    eys = ys + [ys[-1] + stepy * k for k in range(1, ext + 1)]
    mods: dict = {}
    for name, rects in (die.get("fixed") or {}).items():
        mods[name] = {"fixed": True, "rectangles": [list(r) for r in rects]}
    n = rng.randint(1, max_modules)
    for i in range(n):
        kind = rng.choice(list(kinds))
        name = f"{'S' if kind.startswith('soft') else 'H'}{i}"
        if kind == "soft":
            side = rng.choice([F(1, 2), F(1), F(3, 2), F(2), F(3), F(7, 10), F(113, 100)]) * min(stepx, stepy)
            area = geo.fl(side * side)
            where = rng.random()
            if where < 0.6 or inside_only:
                cx, cy = rng.choice(xs) if rng.random() < 0.5 else (rng.choice(xs[:-1]) + stepx / 2), rng.choice(ys[:-1]) + stepy / rng.choice([1, 2, 4])
                cx, cy = min(cx, xs[-1]), min(cy, ys[-1])
            elif where < 0.8:   # on the border
                cx, cy = rng.choice([xs[0], xs[-1]]), rng.choice(ys)
            else:               # outside: sticks out or misses the die completely
                cx, cy = xs[-1] + stepx * rng.choice([F(1, 4), 1, 3]), rng.choice(ys)
            mods[name] = {"area": area, "center": [geo.fl(cx), geo.fl(cy)]}
        else:
            k = rng.randint(1, 3)
            idx = geo.place_index_rects(rng, len(exs) - 1, len(eys) - 1, k, max_frac=0.5)
            off = rng.choice([F(0), F(0), F(1, 2), F(1, 4)])     # off-lattice shift (stays >= 0)
            rects = [geo.cwh(exs[a] + off * stepx, exs[b] + off * stepx, eys[c] + off * stepy, eys[d] + off * stepy) for (a, b, c, d) in idx]
            if kind == "softrect":
                mods[name] = {"area": geo.fl(sum((F(r[2]) * F(r[3]) for r in rects), F(0))), "rectangles": rects}
            else:
                mods[name] = {"hard": True, "rectangles": rects}
                if rng.random() < 0.3 and len(rects) == 1:
                    mods[name]["flip"] = True
    if terminals and rng.random() < 0.5:
        mods["T0"] = {"terminal": True, "center": [geo.fl(xs[0]), geo.fl(rng.choice(ys))]}
    names = list(mods)
    nets = []
    if len(names) >= 2:
        for _ in range(rng.randint(1, 6)):
            e: list = rng.sample(names, rng.randint(2, min(4, len(names))))
            w = rng.choice(WEIGHTS)
            if w is not None:
                e.append(w)
            nets.append(e)
    return {"Modules": mods, "Nets": nets}
