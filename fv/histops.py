"""Operation repertoire for the history-independence monitor (C20): every operation loads its own
design first (as a fresh process must) and returns a canonical, JSON-serialisable result that ignores
legitimately history-dependent names (ROBDD node ids, auxiliary variable names, GEKKO paths)."""
from __future__ import annotations

import contextlib
import io
import itertools
import math


def rnd(x):
    if isinstance(x, bool) or x is None or isinstance(x, str):
        return x
    if isinstance(x, int):
        return x
    if isinstance(x, float):
        if not math.isfinite(x):
            return repr(x)
        return float(f"{x:.9g}")
    if isinstance(x, (list, tuple)):
        return [rnd(v) for v in x]
    if isinstance(x, dict):
        return {str(k): rnd(v) for k, v in sorted(x.items(), key=lambda kv: str(kv[0]))}
    return repr(x)


def _rect(r):
    return [r.center.x, r.center.y, r.shape.w, r.shape.h, r.region, bool(r.fixed), r.location.name]


def op_netlist(op):
    from frame.netlist.netlist import Netlist
    from fv import netutil as nu
    src = op["doc"]
    if op.get("as_text"):
        # through the YAML reader (block or flow text; an older document may carry a '%YAML 1.1' directive)
        from fv.gen import netlists as gn
        src = gn.doc_text(src, flow=(op["as_text"] == "flow"))
        if op.get("directive"):
            src = "%YAML " + op["directive"] + "\n---\n" + src
    n = Netlist(src)
    s = nu.summary(n)
    for m in s["modules"]:
        order = sorted(range(len(m["rectangles"])), key=lambda k: m["rectangles"][k])
        m["rectangles"] = [list(m["rectangles"][k]) + [m["roles"][k]] for k in order]
        m.pop("roles")
    return s


def _die(op):
    from frame.die.die import Die
    from frame.netlist.netlist import Netlist
    from fv.gen import dies as gd
    d = op["die"]
    nl = None
    nt = d.get("netlist") or gd.netlist_tree_for_fixed(d.get("fixed") or {})
    if nt:
        nl = Netlist(nt)
    return Die(gd.die_tree(d), nl), nl


def _die_regions(die):
    return {"ground": sorted(_rect(r) for r in die.ground_regions), "spec": sorted(_rect(r) for r in die.specialized_regions),
            "block": sorted(_rect(r) for r in die.blockages), "fixed": sorted(_rect(r) for r in die.fixed_regions)}


def op_die(op):
    die, _ = _die(op)
    return _die_regions(die)


def op_die_refine(op):
    die, _ = _die(op)
    if die.ground_regions or die.specialized_regions:
        die.split_refinable_regions(op["r"], op["n"])
    return _die_regions(die)


def op_alloc(op):
    from fv import allocutil as au
    from frame.allocation.allocation import Allocation
    from frame.geometry.geometry import Rectangle, Point, Shape
    al = op["alloc"]
    if al["form"] == "tuples":
        lst = [(Rectangle(center=Point(c["r"][0], c["r"][1]), shape=Shape(c["r"][2], c["r"][3]), fixed=bool(c["f"])), dict(c["a"]), c["d"]) for c in al["cells"]]
        a = Allocation(lst)
    else:
        a = Allocation([[list(c["r"]), dict(c["a"]), c["d"]] for c in al["cells"]])
    for o in al["ops"]:
        if au.predicted_size(a, o) > 150:
            break
        a = au.apply_op(a, o)
    return sorted([ra.rect.center.x, ra.rect.center.y, ra.rect.shape.w, ra.rect.shape.h, sorted(ra.alloc.items()), ra.depth] for ra in a.allocations)


def op_stog(op):
    from frame.netlist.netlist import Netlist
    rects = op["rects"]
    n = Netlist({"Modules": {"M": {"area": sum(r[2] * r[3] for r in rects), "rectangles": [list(r) for r in rects]}}})
    m = n.modules[0]
    return {"has_stog": m.has_stog, "roles": sorted(_rect(r) for r in m.rectangles), "first": _rect(m.rectangles[0])[:4]}


def op_pb(op):
    from pysat.solvers import Solver
    from tools.rect import satmanager
    from fv.props import c07
    c07._pb = __import__("tools.rect.pseudobool", fromlist=["x"])
    c07._sat = satmanager
    nv = op["nv"]
    sm = satmanager.SATManager()
    uv = [sm.newvar(c07.VARS[k]) for k in range(nv)]
    refused = []
    for k, c in enumerate(op["cons"]):
        try:
            c07.post(sm, c, lambda l: uv[l[0]] if l[1] else -uv[l[0]])
        except Exception as e:  # noqa
            refused.append([k, type(e).__name__])
    cnf = [[sm.ttable[l.v] if l.s else -sm.ttable[l.v] for l in cl] for cl in sm.clauses]
    ids = [sm.ttable[u.v] for u in uv]
    sat = []
    if not any(len(c) == 0 for c in cnf):
        s = Solver(name="m22", bootstrap_with=cnf)
        for bits in itertools.product((0, 1), repeat=nv):
            if s.solve(assumptions=[i if b else -i for i, b in zip(ids, bits)]):
                sat.append(list(bits))
        s.delete()
    return {"refused": refused, "models": sat, "solve": bool(sm.solve())}


def op_legal(op):
    from fv.props import c09
    import tools.legalfloor.legalfloor as lf
    import tools.legalfloor.expression_tree as et
    c09._lf, c09._et = lf, et
    with contextlib.redirect_stdout(io.StringIO()):
        nl, m = c09.build(op["case"])
    out = []
    for group, e in c09.all_equations(m):
        if group in ("radius",):
            continue
        out.append([group, e.name, bool(e.is_equation_met())])
    # the constructed model itself: its variables, the size and value of its objective, constraints per group
    variables = sorted(v.data["name"] for v in m.gekko.variable_list)
    groups = {g: len(eqs) for g, eqs in m.gekko.constraints.items()}
    return {"equations": out, "variables": variables, "variable_order": [v.data["name"] for v in m.gekko.variable_list], "constraint_groups": groups, "objective_size": m.gekko.objective.size,
            "objective_value": m.gekko.objective.evaluate(), "difference_cost_terms": len(m.gekko.variable_list)}


def op_strop(op):
    from tools.floorset_parser.floor_set_manager.strop import Strop
    s = Strop(op["grid"])
    inst = []
    for i in s.instances():
        inst.append(sorted([r.rows.low, r.rows.high, r.columns.low, r.columns.high] for r in i.rectangles()))
    return {"is_strop": s.is_strop, "instances": sorted(inst)}


def op_mutate_same(op):
    """loads the SAME design as the probe and then alters the loaded objects through the public API (moves rectangles in place,
    flips flags, refines, clears maps).  A later fresh load of that design must not see any of it: this is the history that exposes
    parsed objects shared between loads (memoised parsers, module-level registries)."""
    from frame.geometry.geometry import Rectangle
    inner = op["probe"]
    k = inner["k"]
    if k in ("netlist", "stog"):
        from frame.netlist.netlist import Netlist
        doc = inner["doc"] if k == "netlist" else {"Modules": {"M": {"area": sum(r[2] * r[3] for r in inner["rects"]), "rectangles": [list(r) for r in inner["rects"]]}}}
        n = Netlist(doc)
        n.create_squares()
        for m in n.modules:
            for r in m.rectangles:
                r.center.x += 1.0
                r.fixed = not r.fixed
                r.location = Rectangle.StogLocation.TRUNK
                r.shape.w *= 2
    elif k in ("die", "die_refine"):
        die, _ = _die(inner)
        for r in die.blockages + die.specialized_regions + die.ground_regions + die.fixed_regions:
            r.center.y += 1.0
            r.fixed = True
        if die.ground_regions or die.specialized_regions:
            die.split_refinable_regions(1.5, 16)
    elif k == "alloc":
        from frame.allocation.allocation import Allocation
        from frame.netlist.netlist import Netlist
        al = inner["alloc"]
        a = Allocation([[list(c["r"]), dict(c["a"]), c["d"]] for c in al["cells"]])
        # the way initial_allocation marks the cells of fixed modules
        c0 = al["cells"][0]["r"]
        nl = Netlist({"Modules": {"FX": {"fixed": True, "rectangles": [list(c0[:4])]}, "SX": {"area": c0[2] * c0[3], "center": [c0[0], c0[1]]}}})
        try:
            a.initial_allocation(nl)
        except Exception:  # noqa
            pass
        for ra in a.allocations:
            ra.rect.fixed = True
            ra.rect.center.y += 1.0
            ra.alloc.clear()
    elif k == "pb":
        op_pb(inner)
    elif k == "legal":
        op_legal(inner)
    elif k == "strop":
        op_strop(inner)
    return None


def op_heule_deep(op):
    """at-most-one over many literals with chain width 3: the chained encoding recurses once per two literals"""
    from tools.rect import satmanager
    sm = satmanager.SATManager()
    lits = [sm.newvar(f"v{k}") for k in range(op["n"])]
    sm.heuleencoding(lits, 3)
    sm.add_clause([lits[op["n"] // 2]])
    return {"clauses": len(sm.clauses), "solve": bool(sm.solve()), "true": sum(sm.value(l) for l in lits)}


def op_pb_big(op):
    """one inequality over hundreds of variables (small diagram: all coefficients 1, small bound)"""
    from tools.rect import satmanager, pseudobool as pb
    sm = satmanager.SATManager()
    e = pb.Expr()
    for k in range(op["n"]):
        e = e + sm.newvar(f"w{k}")
    sm.pseudoboolencoding(e >= op["bound"], op.get("decomp", False))
    return {"clauses": len(sm.clauses), "solve": bool(sm.solve())}


def op_pb_many(op):
    """a long run of encodings of other designs (as the rectangle tool produces in one session): hundreds of inequalities over
    fourteen variables with large coefficients; only sizes are reported"""
    import random as _r
    from tools.rect import satmanager, pseudobool as pb
    rnd = _r.Random(op["seed"])
    total = 0
    for _ in range(op["count"]):
        sm = satmanager.SATManager()
        lits = [sm.newvar(f"x{k}") for k in range(op["nv"])]
        coefs = [rnd.randrange(1000, 100000) for _ in lits]
        e = pb.Expr()
        for l, c in zip(lits, coefs):
            e = e + l * c
        sm.pseudoboolencoding(e >= sum(coefs) // 2)
        total += len(sm.clauses)
    return {"clauses": total}


OPS = {"pb_many": op_pb_many, "heule_deep": op_heule_deep, "pb_big": op_pb_big, "mutate_same": op_mutate_same, "netlist": op_netlist, "die": op_die, "die_refine": op_die_refine, "alloc": op_alloc, "stog": op_stog, "pb": op_pb, "legal": op_legal, "strop": op_strop}


class OpTimeout(BaseException):
    pass


def _alarm(signum, frame):
    raise OpTimeout()


def run_op(op, limit: float = 0.0):
    """canonical result; a rejection is reported by its exception class (messages legitimately differ).
    limit > 0: wall-clock cap for this operation (only used inside forked children: a pathological design, e.g. a
    sliver region of aspect ratio 1e8 that split_refinable_regions halves 2^26 times, must not stall the run)"""
    import signal
    if limit > 0:
        signal.signal(signal.SIGALRM, _alarm)
        signal.setitimer(signal.ITIMER_REAL, limit)
    try:
        return {"ok": rnd(OPS[op["k"]](op))}
    except OpTimeout:
        return {"reject": "OpTimeout"}
    except Exception as e:  # noqa
        return {"reject": type(e).__name__}
    finally:
        if limit > 0:
            signal.setitimer(signal.ITIMER_REAL, 0)


# ---------------------------------------------------------------------------------------------
# scaling of designs (history designs are brought to a chosen scale relative to the probe)
# ---------------------------------------------------------------------------------------------
def _srect(r, f):
    return [r[0] * f, r[1] * f, r[2] * f, r[3] * f] + list(r[4:])


def scale_netlist_doc(doc, f):
    out = {"Modules": {}, "Nets": doc.get("Nets", [])}
    for name, m in doc["Modules"].items():
        m2 = dict(m)
        if "area" in m2:
            a = m2["area"]
            m2["area"] = a * f * f if isinstance(a, (int, float)) else {k: v * f * f for k, v in a.items()}
        if "center" in m2:
            m2["center"] = [m2["center"][0] * f, m2["center"][1] * f]
        if "rectangles" in m2:
            rs = m2["rectangles"]
            if rs and isinstance(rs[0], (int, float)):
                rs = [rs]
            m2["rectangles"] = [_srect(r, f) for r in rs]
        out["Modules"][name] = m2
    return out


def scale_op(op, f):
    k = op["k"]
    if k == "netlist":
        return {"k": k, "doc": scale_netlist_doc(op["doc"], f)}
    if k in ("die", "die_refine"):
        d = op["die"]
        d2 = dict(d)
        d2["W"], d2["H"] = d["W"] * f, d["H"] * f
        d2["regions"] = [_srect(r, f) for r in d["regions"]]
        d2["fixed"] = {n: [_srect(r, f) for r in rs] for n, rs in (d.get("fixed") or {}).items()}
        if d.get("netlist"):
            d2["netlist"] = scale_netlist_doc(d["netlist"], f)
        o = dict(op)
        o["die"] = d2
        return o
    if k == "alloc":
        al = dict(op["alloc"])
        al["cells"] = [dict(c, r=_srect(c["r"], f)) for c in al["cells"]]
        return {"k": k, "alloc": al}
    if k == "stog":
        return {"k": k, "rects": [_srect(r, f) for r in op["rects"]]}
    return op


def dimension(op):
    """linear scale of the design of an operation (None for scale-free operations)"""
    k = op["k"]
    try:
        if k == "netlist":
            vals = []
            for m in op["doc"]["Modules"].values():
                rs = m.get("rectangles") or []
                if rs and isinstance(rs[0], (int, float)):
                    rs = [rs]
                for r in rs:
                    vals += [r[0] + r[2] / 2, r[1] + r[3] / 2]
                a = m.get("area")
                if isinstance(a, (int, float)):
                    vals.append(math.sqrt(a))
                elif isinstance(a, dict):
                    vals.append(math.sqrt(sum(a.values())))
                if "center" in m:
                    vals += [abs(m["center"][0]), abs(m["center"][1])]
            return max(vals) if vals else None
        if k in ("die", "die_refine"):
            return max(op["die"]["W"], op["die"]["H"])
        if k == "alloc":
            return max(max(c["r"][0] + c["r"][2] / 2, c["r"][1] + c["r"][3] / 2) for c in op["alloc"]["cells"])
        if k == "stog":
            return max(max(r[0] + r[2] / 2, r[1] + r[3] / 2) for r in op["rects"])
        if k == "legal":
            return max(op["case"]["W"], op["case"]["H"])
    except Exception:  # noqa
        return None
    return None
