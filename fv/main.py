"""Entry point: python -m fv.main C07 --tier quick|thorough [--seed N] [--replay FILE]
                python -m fv.main --shard PID TIER SEED SHARD NSHARDS OUT      (internal)"""
import argparse
import os
import sys

from fv import core


def main() -> int:
    if len(sys.argv) > 1 and sys.argv[1] == "--shard":
        return core.shard_main(sys.argv[2:])
    ap = argparse.ArgumentParser()
    ap.add_argument("pid")
    ap.add_argument("--tier", default=os.environ.get("VERIF_TIER", "quick"), choices=["quick", "thorough"])
    ap.add_argument("--seed", type=int, default=None)
    ap.add_argument("--replay", default=None)
    a = ap.parse_args()
    seed = a.seed if a.seed is not None else int(os.environ.get("VERIF_SEED", core.DEFAULT_SEED))
    return core.run_property(a.pid.upper(), a.tier, seed, a.replay)


if __name__ == "__main__":
    sys.exit(main())
