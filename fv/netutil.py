"""Helpers for netlist monitors: loading through the real reader (fresh tolerance), structural
summaries of loaded netlists, a reference evaluator over the plain document."""
from __future__ import annotations

import math
import os
from fractions import Fraction as F

_cnt = [0]


def load(doc_or_text, via: str = "tree"):
    from frame.geometry.geometry import Rectangle
    from frame.netlist.netlist import Netlist
    Rectangle.undefine_epsilon()
    if via == "file":
        scratch = os.environ.get("FV_SCRATCH", "/tmp")
        _cnt[0] += 1
        path = os.path.join(scratch, f"net_{os.getpid()}.yaml")      # the same path every time: rewritten files must be read as they are now
        with open(path, "w") as f:
            f.write(doc_or_text)
        try:
            return Netlist(path)
        finally:
            os.remove(path)
    if via == "handle":
        import io
        return Netlist(io.StringIO(doc_or_text))
    return Netlist(doc_or_text)


def rect_tuple(r):
    return (r.center.x, r.center.y, r.shape.w, r.shape.h, r.region, bool(r.fixed), bool(r.hard))


def summary(n) -> dict:
    """everything the exchange format is meant to carry, through the public API"""
    mods = []
    for m in n.modules:
        mods.append({
            "name": m.name,
            "kind": {"soft": m.is_soft, "hard": m.is_hard, "fixed": m.is_fixed, "terminal": m.is_terminal, "flip": m.flip},
            "area_regions": dict(m.area_regions),
            "area": m.area(),
            "center": None if m.center is None else (m.center.x, m.center.y),
            "aspect_ratio": None if m.aspect_ratio is None else (m.aspect_ratio.min_wh, m.aspect_ratio.max_wh),
            "rectangles": [rect_tuple(r) for r in m.rectangles],
            "roles": [r.location.name for r in m.rectangles],
        })
    nets = [{"members": [b.name for b in e.modules], "weight": e.weight} for e in n.edges]
    return {"modules": mods, "nets": nets}


def close(a, b, rel=1e-12) -> bool:
    if rel == 0:
        return a == b
    if a is None or b is None:
        return a is b
    if isinstance(a, (tuple, list)):
        return len(a) == len(b) and all(close(x, y, rel) for x, y in zip(a, b))
    if isinstance(a, str) or isinstance(b, str) or isinstance(a, bool) or isinstance(b, bool):
        return a == b
    return abs(a - b) <= rel * max(abs(a), abs(b), 1e-300)


def diff_summaries(s1: dict, s2: dict, rel=0) -> list[str]:
    """rel = 0: numbers that are merely COPIED through a document (areas, aspect-ratio bounds, rectangle coordinates, weights, centres of
    modules without rectangles) must come back bit-identical (YAML prints repr-exact floats); only centres recomputed from rectangles get 1e-9"""
    out = []
    n1 = [m["name"] for m in s1["modules"]]
    n2 = [m["name"] for m in s2["modules"]]
    if n1 != n2:
        return [f"modules/order: {n1} -> {n2}"]
    for a, b in zip(s1["modules"], s2["modules"]):
        nm = a["name"]
        if a["kind"] != b["kind"]:
            out.append(f"{nm}: kind {a['kind']} -> {b['kind']}")
        if set(a["area_regions"]) != set(b["area_regions"]) or any(not close(a["area_regions"][k], b["area_regions"][k], rel) for k in a["area_regions"] if k in b["area_regions"]):
            out.append(f"{nm}: per-region areas {a['area_regions']} -> {b['area_regions']}")
        if not close(a["center"], b["center"], 1e-9 if a["rectangles"] else rel):
            out.append(f"{nm}: centre {a['center']} -> {b['center']}")
        if not close(a["aspect_ratio"], b["aspect_ratio"], rel):
            out.append(f"{nm}: aspect ratio {a['aspect_ratio']} -> {b['aspect_ratio']}")
        if len(a["rectangles"]) != len(b["rectangles"]) or any(not close(x, y, rel) for x, y in zip(a["rectangles"], b["rectangles"])):
            out.append(f"{nm}: rectangles {a['rectangles']} -> {b['rectangles']}")
    if len(s1["nets"]) != len(s2["nets"]):
        out.append(f"nets: {len(s1['nets'])} -> {len(s2['nets'])}")
    else:
        for k, (a, b) in enumerate(zip(s1["nets"], s2["nets"])):
            if a["members"] != b["members"] or not close(a["weight"], b["weight"], rel):
                out.append(f"net {k}: {a} -> {b}")
    return out


# ---------------------------------------------------------------------------------------------
# reference evaluator over the plain document (definitions of C05)
# ---------------------------------------------------------------------------------------------
def _rects_of(m: dict):
    r = m.get("rectangles")
    if r is None:
        return []
    if r and isinstance(r[0], (int, float)):
        return [r]
    return r


def ref_module(name: str, m: dict) -> dict:
    terminal = m.get("terminal") is True
    fixed = m.get("fixed") is True
    hard = m.get("hard") is True or fixed or "terminal" in m
    rects = _rects_of(m)
    if hard:
        area = sum((F(r[2]) * F(r[3]) for r in rects), F(0))
    else:
        a = m.get("area")
        area = F(a) if isinstance(a, (int, float)) else sum((F(v) for v in a.values()), F(0))
    if rects:
        tot = sum((F(r[2]) * F(r[3]) for r in rects), F(0))
        cx = sum((F(r[2]) * F(r[3]) * F(r[0]) for r in rects), F(0)) / tot
        cy = sum((F(r[2]) * F(r[3]) * F(r[1]) for r in rects), F(0)) / tot
        center = (cx, cy)
    elif "center" in m:
        center = (F(m["center"][0]), F(m["center"][1]))
    else:
        center = None
    return {"area": area, "center": center, "terminal": terminal, "fixed": fixed, "hard": hard,
            "rects": [(float(r[0]), float(r[1]), float(r[2]), float(r[3]), r[4] if len(r) == 5 else "_") for r in rects]}


def ref_wire_length(doc: dict, refs: dict):
    """None when some member of some net has no centre"""
    total = 0.0
    for e in doc.get("Nets", []):
        w = 1.0
        members = list(e)
        if isinstance(members[-1], (int, float)):
            w = float(members[-1])
            members = members[:-1]
        cs = [refs[b]["center"] for b in members]
        if any(c is None for c in cs):
            return None
        mx = sum((c[0] for c in cs), F(0)) / len(cs)
        my = sum((c[1] for c in cs), F(0)) / len(cs)
        total += w * sum(math.sqrt(float((c[0] - mx) ** 2 + (c[1] - my) ** 2)) for c in cs)
    return total
