"""C01 - Die decomposition is an exact tiling of the die.

Monitor: postcondition on the real Die constructor for every generated description (valid by
construction, or with one defect injected by a clear margin): exact-arithmetic tiling check of the
reported regions, input regions reported unchanged, valid => accepted, invalid => rejected."""
from fv import dieutil
from fv.exact import XR, tiling_report
from fv.gen import dies as gd

ID = "C01"
RULE = ("lattice dies (<=12x12 cells; families int/binary/decimal/1e3/1e-3/random floats) with 0-10 disjoint regions tagged blockage / specialised / fixed "
        "(fixed ones delivered through an attached netlist), structural classes empty, full cover, ring, border, corners, chain, T-junction, single gap, random; "
        "invalid descriptions with one defect by a clear margin; entry as WxH string, YAML text, tree, file, open handle; non-trivial = >=2 reported regions; distinct = distinct description")
ASSUMPTIONS = [
    "valid = regions pairwise disjoint and inside the die as decimal/lattice values (what the user wrote); invalid overlaps/overhangs are at least a quarter of a region / one lattice cell",
    "tiling judged in exact arithmetic on the float values with 1e-9 relative tolerances",
    "the two die dimensions and all features of a description are commensurate (dynamic range below ~1e3): the reader's tolerance is 1e-12 x the smallest feature, so a die of 0.0049 x 0.000000029 (a random-float lattice with one cut that happened to land 3e-5 from the origin; met once in 1.5 million cases of the thorough tier with seed 1) is rejected on a 1-ulp rounding of its own width - the recorded root cause of the tolerance findings, not counted again",
    "tolerance state pinned per case: undefined, then the netlist (if any) and the die are loaded in that order, as a fresh process would",
]
CASES = {"quick": 40000, "thorough": 1500000}
MIN_CASES = {"quick": 10000, "thorough": 30000}
REQUIRED_CLASSES = ["valid", "invalid"]
REQUIRED_COUNTERS = ["tiling_checked", "inputs_unchanged_checked", "invalid_rejected_checked", "rejudged_after_accessors", "same_tree_loaded_twice", "attached_netlist_with_movable_hard_modules", "entry:text", "entry:file", "entry:tree", "entry:handle", "entry:tree_numpy",
                     "struct:empty", "struct:full_cover", "struct:ring", "struct:tjunction", "struct:border"]


def setup(ctx):
    import frame.die.die  # noqa


def generate(rng, tier, i):
    d = gd.gen_die(rng, max_n=12 if tier == "quick" or rng.random() < 0.8 else 20)
    entry = rng.choice(["tree", "tree", "text", "file", "handle", "tree_numpy"])
    if not d["regions"] and rng.random() < 0.5:
        entry = "string"
    if not d["fixed"] and rng.random() < 0.15:
        # an attached netlist that contributes no fixed rectangle (terminals / soft modules only)
        mods = {"T0": {"terminal": True, "center": [0.0, d["H"] / 2]}, "T1": {"terminal": True}}
        if rng.random() < 0.5:
            mods["S0"] = {"area": (min(d["W"], d["H"]) / 4) ** 2, "center": [d["W"] / 2, d["H"] / 2]}
        d["netlist"] = {"Modules": mods, "Nets": [["T0", "T1"]]}
    if rng.random() < 0.2:
        # the attached netlist also has movable hard (and soft) modules with rectangles anywhere - even on top of regions: only the rectangles
        # of FIXED modules are regions of the die
        nt = gd.netlist_tree_for_fixed(d["fixed"]) or {"Modules": {}}
        W, H = d["W"], d["H"]
        for k in range(rng.randint(1, 2)):
            w, h = W * rng.choice([0.2, 0.5, 1.0]), H * rng.choice([0.2, 0.5])
            nt["Modules"][f"HM{k}"] = {"hard": True, "rectangles": [[w / 2 + rng.choice([0, 0.1]) * W, h / 2, w, h]]}
        nt["Modules"]["SM"] = {"area": (min(W, H) / 3) ** 2, "rectangles": [[W / 2, H / 2, W / 2, H / 2]]}
        d["netlist"] = nt
    if i % 5 == 4:
        bad = gd.inject_defect(rng, d, gd.INVALID[(i // 5) % len(gd.INVALID)])
        if bad is not None:
            if entry == "string":
                entry = "tree"
            return {"cls": "invalid", "die": _slim(bad), "entry": entry, "defect": bad["defect"]}
    return {"cls": "valid", "die": _slim(d), "entry": entry}


def _slim(d):
    return {k: d[k] for k in ("fam", "W", "H", "regions", "fixed", "struct", "extra_keys", "netlist") if k in d}


def directed():
    return [
        # found by the thorough tier: the area-sum self-check used an absolute tolerance (large decimal die)
        {'cls': 'valid', 'die': {'fam': 'odd_1234.567', 'W': 46913.546, 'H': 45678.979, 'regions': [[20987.639, 617.2835, 41975.278, 1234.567, '#'], [44444.412, 617.2835, 4938.268, 1234.567, 'LUT'], [40740.711, 1851.8505, 9876.536, 1234.567, '#']], 'fixed': {}, 'struct': 'tjunction'}, 'entry': 'text'},
        {"cls": "valid", "die": {"fam": "dec_0.1", "W": 0.6, "H": 0.3, "regions": [[0.25, 0.2, 0.5, 0.2, "#"]], "fixed": {}, "struct": "directed"}, "entry": "tree"},
        {"cls": "valid", "die": {"fam": "dec_0.1", "W": 0.6, "H": 0.3, "regions": [[0.25, 0.2, 0.5, 0.2, "#"]], "fixed": {}, "struct": "directed"}, "entry": "text"},
        {"cls": "valid", "die": {"fam": "dec_0.1", "W": 1.1, "H": 0.7, "regions": [[1.0, 0.35, 0.2, 0.7, "LUT"]], "fixed": {}, "struct": "directed"}, "entry": "tree"},
        # attached netlist without any rectangle or area (terminals only): the tolerance became infinite and the die was rejected
        {"cls": "valid", "die": {"fam": "half", "W": 3.5, "H": 1.5, "regions": [[0.5, 0.5, 1.0, 1.0, "#"]], "fixed": {}, "struct": "directed",
                                 "netlist": {"Modules": {"T0": {"terminal": True, "center": [0.0, 0.5]}, "T1": {"terminal": True}}, "Nets": [["T0", "T1"]]}}, "entry": "tree"},
    ]


def check(case, ctx):
    d = case["die"]
    ctx.count("entry:" + case["entry"])
    ctx.count("struct:" + str(d.get("struct")))
    if d.get("netlist") and any("hard" in m for m in d["netlist"]["Modules"].values()):
        ctx.count("attached_netlist_with_movable_hard_modules")
    ok, res = ctx.call(dieutil.build_die, d, case["entry"])
    if case["cls"] == "invalid":
        ctx.count("invalid_rejected_checked")
        ctx.nontrivial(True)
        if ok:
            ctx.violation("invalid_accepted", f"die with defect '{case['defect']}' was accepted: {d}")
        return
    if not ok:
        ctx.violation("valid_rejected", f"valid die rejected with {type(res).__name__}: {str(res)[:300]} :: W={d['W']} H={d['H']} regions={d['regions']} fixed={d['fixed']}")
        return
    die, nl = res
    judge_die(ctx, die, d, nl)
    # reading the die through its accessors (as the allocation code does) must not alter it
    ctx.call(die.floorplanning_rectangles)
    ctx.call(die.floorplanning_rectangles)
    ctx.call(die.write_yaml)
    ctx.count("rejudged_after_accessors")
    judge_die(ctx, die, d, nl)
    if case["entry"] == "tree":
        # the caller's own tree object: loading must not consume or alter it (a second load gives the same die)
        import copy
        from frame.die.die import Die
        from frame.geometry.geometry import Rectangle
        tree = gd.die_tree(d)
        keep = copy.deepcopy(tree)
        Rectangle.undefine_epsilon()
        ok1, d1 = ctx.call(Die, tree, nl)
        ok2, d2 = ctx.call(Die, tree, nl)
        ctx.count("same_tree_loaded_twice")
        if tree != keep:
            ctx.violation("input_tree_altered", f"loading altered the caller's description: {keep} -> {tree}")
        elif ok1 and ok2:
            snap = lambda x: sorted(dieutil.rect_key(r) for r in x.ground_regions + x.specialized_regions + x.blockages + x.fixed_regions)  # noqa
            if snap(d1) != snap(d2):
                ctx.violation("second_load_differs", f"two loads of the same description differ: {snap(d1)} vs {snap(d2)}")
        elif ok1 != ok2:
            ctx.violation("second_load_differs", f"first load {'accepted' if ok1 else 'rejected'}, second {'accepted' if ok2 else 'rejected'}: {d}")


def judge_die(ctx, die, d, nl=None, refined=False):
    W, H = d["W"], d["H"]
    scale = max(W, H)
    container = XR(0, W, 0, H)
    ground, spec, block, fixed = die.ground_regions, die.specialized_regions, die.blockages, die.fixed_regions
    allr = list(ground) + list(spec) + list(block) + list(fixed)
    ctx.nontrivial(len(allr) >= 2)
    ctx.count("tiling_checked")
    if die.width != W or die.height != H:
        ctx.violation("die_size", f"die reports {die.width}x{die.height}, description says {W}x{H}")
    rep = tiling_report([XR.of(r) for r in allr], container, scale)
    if rep:
        ctx.violation("not_a_tiling", f"{rep} :: W={W} H={H} regions={d['regions']} fixed={d['fixed']}")
    # input regions reported unchanged, with their tag, exactly once
    ctx.count("inputs_unchanged_checked")
    want_block = sorted(tuple(r) for r in d["regions"] if r[4] == "#")
    want_spec = sorted(tuple(r) for r in d["regions"] if r[4] != "#")
    got_block = sorted(dieutil.rect_key(r) for r in block)
    got_spec = sorted(dieutil.rect_key(r) for r in spec)
    if got_block != [tuple(map(float, r[:4])) + (r[4],) for r in want_block]:
        ctx.violation("blockages_changed", f"blockages reported {got_block}, given {want_block}")
    if not refined and got_spec != [tuple(map(float, r[:4])) + (r[4],) for r in want_spec]:
        ctx.violation("specialised_changed", f"specialised regions reported {got_spec}, given {want_spec}")
    want_fixed = sorted(tuple(map(float, r)) for rs in (d.get("fixed") or {}).values() for r in rs)
    got_fixed = sorted(dieutil.rect_key(r)[:4] for r in fixed)
    if got_fixed != want_fixed:
        ctx.violation("fixed_changed", f"fixed regions reported {got_fixed}, netlist has {want_fixed}")
    if any(not r.fixed for r in fixed):
        ctx.violation("fixed_flag", "a fixed region is not flagged fixed")
    for r in ground:
        if r.region != "_":
            ctx.violation("ground_tag", f"ground region tagged {r.region!r}")
            break
