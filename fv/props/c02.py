"""C02 - Refining an allocation conserves tiling, module area and centroid.

Monitor: postconditions on the real Allocation.refine / uniform_refinement_depth / griddify along
generated operation sequences: exact parent/child tiling, inherited ratio maps, fixed cells uncut,
module area and centre of mass conserved, and the operation must succeed."""
from fv import allocutil as au

ID = "C02"
RULE = ("allocations: guillotine / strip / grid layouts on lattices of all coordinate families (holes, 1-5 modules, ratios from {0,1,t,t+-delta,random}, empty maps, "
        "depths 0-3, fixed cells), built from tuples, YAML tree or text; sequences of 1-4 operations (refine(t,levels), uniform depth, griddify); "
        "non-trivial = some operation created new cells; distinct = distinct (allocation, sequence)")
ASSUMPTIONS = [
    "every module of the allocation has positive area somewhere (its centre of mass is undefined otherwise)",
    "fixed cells are in-memory rectangles flagged fixed holding {F: 1.0}, the way initial_allocation produces them",
    "area compared with relative 1e-9, centre with 1e-9 x (bounding box + coordinate magnitude)",
]
CASES = {"quick": 15000, "thorough": 500000}
MIN_CASES = {"quick": 3000, "thorough": 25000}
REQUIRED_COUNTERS = ["op:refine", "op:uniform", "op:griddify", "parent_tilings_checked", "module_conservation_checked", "fixed_cells_checked",
                     "layout:vstrips", "layout:hstrips", "unequal_xy_boundaries"]


def setup(ctx):
    import frame.allocation.allocation  # noqa


def generate(rng, tier, i):
    a = au.gen_alloc(rng)
    return {"cls": a["form"], "alloc": a}


def directed():
    def cell(r, a, d=0, f=False):
        return {"r": r, "a": a, "d": d, "f": f}
    five_x = [cell([0.5 + k, 1.0, 1.0, 2.0], {"M0": 0.5}) for k in range(4)]
    return [
        # more x- than y-boundaries (griddify indexed the y-cuts with len(x_cuts))
        {"cls": "directed_griddify", "alloc": {"fam": "int", "layout": "vstrips", "cells": five_x, "ops": [["griddify"]], "form": "tuples", "t": 0.5, "ext": [4.0, 2.0]}},
        # fewer x- than y-boundaries: y-cuts were skipped
        {"cls": "directed_griddify", "alloc": {"fam": "int", "layout": "hstrips", "cells": [cell([1.0, 0.5, 2.0, 1.0], {"M0": 0.5}), cell([1.0, 1.5, 2.0, 1.0], {"M0": 0.2}),
         cell([1.0, 2.5, 2.0, 1.0], {"M1": 0.5}), cell([1.0, 3.5, 2.0, 1.0], {"M1": 0.5}), cell([3.0, 2.0, 2.0, 4.0], {"M2": 0.3})],
         "ops": [["griddify"]], "form": "tuples", "t": 0.5, "ext": [4.0, 4.0]}},
        # fixed cell with threshold 1.0 / mixed depths
        {"cls": "directed_fixed", "alloc": {"fam": "int", "layout": "two", "cells": [cell([1.0, 1.0, 2.0, 2.0], {"F0": 1.0}, 0, True), cell([3.0, 1.0, 2.0, 2.0], {"M0": 0.4}, 0)],
         "ops": [["refine", 1.0, 1]], "form": "tuples", "t": 1.0, "ext": [4.0, 2.0]}},
        {"cls": "directed_fixed", "alloc": {"fam": "int", "layout": "two", "cells": [cell([1.0, 1.0, 2.0, 2.0], {"F0": 1.0}, 0, True), cell([3.0, 1.0, 2.0, 2.0], {"M0": 0.4}, 2)],
         "ops": [["uniform"]], "form": "tuples", "t": 1.0, "ext": [4.0, 2.0]}},
    ]


def check(case, ctx):
    al = case["alloc"]
    ok, a = ctx.call(au.build_alloc, al)
    if not ok:
        ctx.violation("valid_allocation_rejected", f"constructor raised {type(a).__name__}: {str(a)[:300]} on {al['cells']}")
        return
    scale = max(al["ext"])
    if not au.loaded_matches_document(ctx, a if "a0" not in dir() else a0, al):
        return
    ctx.count("layout:" + al["layout"])
    xs = {c["r"][0] - c["r"][2] / 2 for c in al["cells"]} | {c["r"][0] + c["r"][2] / 2 for c in al["cells"]}
    ys = {c["r"][1] - c["r"][3] / 2 for c in al["cells"]} | {c["r"][1] + c["r"][3] / 2 for c in al["cells"]}
    if len(xs) != len(ys):
        ctx.count("unequal_xy_boundaries")
    for k, op in enumerate(al["ops"]):
        if au.predicted_size(a, op) > 200:
            ctx.count("sequence_cut_short_by_size_cap")
            break
        what = f"op#{k} {op} after {al['ops'][:k]} on cells={al['cells']}"
        before_n = a.num_rectangles
        ok, summ = ctx.call(au.modules_summary, a)
        if not ok:
            ctx.violation("summary_raised", f"area/center raised {summ!r}")
            return
        ok, b = ctx.call(au.apply_op, a, op)
        ctx.count("op:" + op[0])
        if not ok:
            ctx.violation("operation_raised", f"{type(b).__name__}: {str(b)[:200]} :: {what}")
            return
        au.judge_conservation(ctx, a, b, summ, scale, what)
        ctx.nontrivial(b.num_rectangles > before_n)
        a = b
