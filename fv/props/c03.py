"""C03 - Initial allocation equals the exact geometric overlap.

Monitor: postcondition on the real create_initial_allocation for generated (die, netlist) pairs:
per cell and module the ratio is compared with the exact overlap fraction computed from the netlist as
it is after the call (squares created by the real code, themselves checked); membership rule; fixed
modules own exactly their cells; Allocation.area(m) equals the exact area of the shape on the cells."""
import math
from fractions import Fraction as F

from fv import dieutil
from fv.exact import XR
from fv.gen import dies as gd
from fv.gen import netlists as gn

ID = "C03"
RULE = ("dies from the C01 generator (blockages, specialised, fixed regions; unrefined / split_refinable_regions / initial_grid) with compatible netlists: soft modules without rectangles "
        "(centre inside, on the border, outside), soft with 1-3 disjoint rectangles, hard, fixed; modules overlap each other and stick out of the die; include-zero on/off; "
        "non-trivial = some module covers part of >=2 cells or >=2 modules share a cell; distinct = distinct (die, netlist, refinement, option)")
ASSUMPTIONS = [
    "no terminals; each module's own rectangles are pairwise disjoint (per the quantifier)",
    "the die has at least one refinable or fixed region (a fully blocked die has no cell to allocate on)",
    "include_area_zero=True only when every module covers part of some refinable cell (0/0 centroid otherwise)",
    "membership rule judged only when the exact ratio is 0 or >= 1e-9 (decimal coordinates produce exact overlaps of ~1e-17 that the float code legitimately sees as 0); ratios compared with 1e-9",
]
CASES = {"quick": 15000, "thorough": 600000}
MIN_CASES = {"quick": 3000, "thorough": 10000}
REQUIRED_COUNTERS = ["soft_modules_whose_declared_area_differs_from_their_rectangles", "fixed_modules_released_before_the_die_was_built", "rectangles_reassigned_through_the_api", "allocated_again_after_initial_grid", "allocated_again_after_further_refinement", "hard_modules_relocated_before_allocation", "ratios_compared", "membership_judged", "fixed_cells_checked", "module_areas_compared", "squares_checked",
                     "refine:none", "refine:split", "refine:grid", "zero:on", "zero:off", "full_cover_cells"]


def setup(ctx):
    import frame.allocation.allocation  # noqa


def generate(rng, tier, i):
    grid = (i % 5 == 4)
    twice_on_empty = (i % 25 == 7)         # unrefined empty die: allocate, grid it, allocate again
    d = gd.gen_die(rng, max_n=8, struct="empty" if grid or twice_on_empty else None)
    doc = gn.gen_compatible(rng, d)
    for mname, mm in doc["Modules"].items():
        # a soft module's declared area is a requirement, its rectangles are its present shape: they need not agree
        if "area" in mm and "rectangles" in mm and rng.random() < 0.5:
            mm["area"] = float(f"{mm['area'] * rng.choice([0.3, 0.5, 0.8, 1.25, 2.0]):.6g}")
    if grid:
        ref = ["grid", rng.randint(1, 5), rng.randint(1, 5)]
        if ref[1] + ref[2] < 3:
            ref[2] = 2
    elif rng.random() < 0.5 and not twice_on_empty:
        ref = ["split", rng.choice([1.5, 2, 3, 10]), rng.choice([1, 2, 4, 8, 16])]
    else:
        ref = ["none"]
    slim = {k: d[k] for k in ("fam", "W", "H", "regions", "fixed", "struct")}
    # a third of the cases relocate the movable hard modules after loading (centre + recenter_rectangles, as the placement
    # tools do between iterations): the allocation must reflect where the rectangles ARE, not where they were when loaded
    move = {}
    if rng.random() < 0.35:
        for name, m in doc["Modules"].items():
            if m.get("hard") is True:
                move[name] = [rng.choice([-1, 1, 2, 0.5]) * float(d["W"]) / max(d["nx"], 1), rng.choice([0, 1, -0.5]) * float(d["H"]) / max(d["ny"], 1)]
    release = []
    if rng.random() < 0.25:
        release = [name for name, m in doc["Modules"].items() if m.get("fixed") and "rectangles" in m and not m.get("terminal") and rng.random() < 0.6]
    return {"release": release, "cls": ref[0], "die": slim, "netlist": doc, "refine": ref, "zero": rng.random() < 0.3, "move": move, "allocate_twice": twice_on_empty or rng.random() < 0.2, "reassign": rng.random() < 0.2}


def directed():
    return [
        # ratio rounds to 1.0000000000000002 (module covering a whole decimal cell): the constructor assertion aborted the call
        {"cls": "directed_ratio_above_one", "die": {"fam": "dec_0.1", "W": 0.8, "H": 0.6, "regions": [[0.6, 0.1, 0.4, 0.2, "#"]], "fixed": {}, "struct": "directed"},
         "netlist": {"Modules": {"S1": {"area": 0.113, "center": [0.76, 0.33]}}, "Nets": []}, "refine": ["split", 2, 16], "zero": False},
        {"cls": "directed_moved_hard", "die": {"fam": "int", "W": 8.0, "H": 4.0, "regions": [], "fixed": {}, "struct": "directed"},
         "netlist": {"Modules": {"H0": {"hard": True, "rectangles": [[1.0, 1.0, 2.0, 2.0], [2.5, 1.0, 1.0, 1.0]]}}, "Nets": []}, "refine": ["grid", 2, 4], "zero": False, "move": {"H0": [4.0, 2.0]}},
        {"cls": "directed_ratio_above_one", "die": {"fam": "dec_0.1", "W": 0.3, "H": 0.3, "regions": [], "fixed": {}, "struct": "directed"},
         "netlist": {"Modules": {"S1": {"area": 0.09, "rectangles": [[0.15, 0.15, 0.3, 0.3]]}}, "Nets": []}, "refine": ["grid", 3, 3], "zero": False},
    ]


def run(case):
    from frame.allocation.allocation import create_initial_allocation
    d = dict(case["die"])
    d["netlist"] = case["netlist"]
    d["release"] = case.get("release") or []
    if case.get("reassign"):
        # the same rectangles handed over again through Netlist.assign_rectangles (movable hard and soft modules)
        d["assign"] = {k: (m["rectangles"] if not isinstance(m["rectangles"][0], (int, float)) else [m["rectangles"]])
                       for k, m in case["netlist"]["Modules"].items() if "rectangles" in m and not m.get("fixed")}
    die, nl = dieutil.build_die(d, "tree")
    ref = case["refine"]
    if ref[0] == "split" and len(die.ground_regions) + len(die.specialized_regions) > 0:
        die.split_refinable_regions(ref[1], ref[2])
    elif ref[0] == "grid":
        die.initial_grid(ref[1], ref[2])
    return die, nl


def check(case, ctx):
    from frame.allocation.allocation import create_initial_allocation
    ok, res = ctx.call(run, case)
    if not ok:
        ctx.violation("setup_raised", f"loading the die/netlist or refining raised {type(res).__name__}: {str(res)[:200]} :: die={case['die']} netlist={case['netlist']}")
        return
    die, nl = res
    ctx.count("refine:" + case["refine"][0])
    if case.get("reassign"):
        ctx.count("rectangles_reassigned_through_the_api")
    for mm in case["netlist"]["Modules"].values():
        if "area" in mm and "rectangles" in mm and isinstance(mm["area"], (int, float)):
            rs_ = mm["rectangles"] if not isinstance(mm["rectangles"][0], (int, float)) else [mm["rectangles"]]
            if abs(mm["area"] - sum(r[2] * r[3] for r in rs_)) > 0.01 * mm["area"]:
                ctx.count("soft_modules_whose_declared_area_differs_from_their_rectangles")
    if case.get("release"):
        ctx.count("fixed_modules_released_before_the_die_was_built", len(case["release"]))
    want_fixed = sorted(tuple(map(float, r[:4])) for k_, m in case["netlist"]["Modules"].items() if m.get("fixed") and k_ not in (case.get("release") or []) for r in (m["rectangles"] if not isinstance(m["rectangles"][0], (int, float)) else [m["rectangles"]]))
    if sorted(dieutil.rect_key(r)[:4] for r in die.fixed_regions) != want_fixed:
        ctx.violation("fixed_regions", f"the die's fixed regions {sorted(dieutil.rect_key(r)[:4] for r in die.fixed_regions)} are not the rectangles of the fixed modules {want_fixed}")
        return
    if case.get("move"):
        from frame.geometry.geometry import Point
        for m in nl.modules:
            if m.name in case["move"] and m.is_hard and not m.is_fixed and m.center is not None:
                dx, dy = case["move"][m.name]
                m.center = Point(max(m.center.x + dx, 0.0), max(m.center.y + dy, 0.0))
                m.recenter_rectangles()
                ctx.count("hard_modules_relocated_before_allocation")
    refinable = die.specialized_regions + die.ground_regions
    fixed_regions = die.fixed_regions
    if not refinable and not fixed_regions:
        ctx.count("die_without_cells_skipped")
        return
    if len(refinable) + len(fixed_regions) > 300:
        ctx.count("die_with_too_many_cells_skipped")      # the Allocation constructor checks all pairs: a sliver region split 2^k times would take minutes
        return
    scale = max(case["die"]["W"], case["die"]["H"])
    # pre-compute which modules touch a refinable cell (squares are created by the call itself -> emulate for the decision only)
    zero = bool(case["zero"])
    if zero:
        for m in nl.modules:
            if m.is_fixed:
                continue
            if m.num_rectangles == 0:
                s = math.sqrt(m.area())
                shapes = [XR.from_cwh(m.center.x, m.center.y, s, s)]
            else:
                shapes = [XR.of(r) for r in m.rectangles]
            if not any(float(XR.of(c).inter_area(sh)) > 1e-9 * scale * scale for c in refinable for sh in shapes):
                zero = False
                break
    ctx.count("zero:on" if zero else "zero:off")
    had_rects = {m.name: m.num_rectangles > 0 for m in nl.modules}
    if case.get("allocate_twice"):
        # allocate, refine the die further, allocate again: the second allocation must be built on the die as it is NOW
        ctx.call(create_initial_allocation, die, False)
        had_rects = {m.name: True if m.is_hard else had_rects[m.name] for m in nl.modules}
        for m in nl.modules:          # squares created by the first call belong to the netlist now
            had_rects[m.name] = m.num_rectangles > 0
        if len(die.ground_regions) == 1 and not die.specialized_regions and not die.blockages and not die.fixed_regions:
            die.initial_grid(2, 3)
            ctx.count("allocated_again_after_initial_grid")
        elif die.ground_regions or die.specialized_regions:
            die.split_refinable_regions(2, 2 * (len(die.ground_regions) + len(die.specialized_regions)))
        refinable = die.specialized_regions + die.ground_regions
        ctx.count("allocated_again_after_further_refinement")
    ok, alloc = ctx.call(create_initial_allocation, die, zero)
    what = f"die={case['die']} netlist={case['netlist']} refine={case['refine']} zero={zero}"
    if not ok:
        ctx.violation("initial_allocation_raised", f"{type(alloc).__name__}: {str(alloc)[:200]} :: {what}")
        return
    # squares
    for m in nl.modules:
        if not had_rects[m.name]:
            ctx.count("squares_checked")
            if m.num_rectangles != 1:
                ctx.violation("square", f"{m.name}: {m.num_rectangles} rectangles after create_squares")
                continue
            r = m.rectangles[0]
            s = math.sqrt(m.area())
            if abs(r.shape.w - s) > 1e-12 * s or abs(r.shape.h - s) > 1e-12 * s or r.center.x != m.center.x or r.center.y != m.center.y:
                ctx.violation("square", f"{m.name}: square {r} for area {m.area()} centre {m.center}")
    shapes = {m.name: [XR.of(r) for r in m.rectangles] for m in nl.modules}
    is_fixed = {m.name: m.is_fixed for m in nl.modules}
    cells = alloc.allocations
    # the cells are the refinable + fixed regions of the die
    want_cells = sorted(dieutil.rect_key(r)[:4] for r in refinable + fixed_regions)
    got_cells = sorted(dieutil.rect_key(c.rect)[:4] for c in cells)
    if want_cells != got_cells:
        ctx.violation("cells", f"cells of the allocation are not the refinable+fixed regions of the die :: {what}")
        return
    fixed_keys = {dieutil.rect_key(r)[:4] for r in fixed_regions}
    owner = {}
    for m in nl.modules:
        if m.is_fixed:
            for r in m.rectangles:
                owner[dieutil.rect_key(r)[:4]] = m.name
    exact_area = {m.name: F(0) for m in nl.modules}
    touching = {}
    shared = False
    for c in cells:
        key = dieutil.rect_key(c.rect)[:4]
        C = XR.of(c.rect)
        if key in fixed_keys:
            ctx.count("fixed_cells_checked")
            name = owner.get(key)
            if c.alloc != {name: 1.0} or not c.rect.fixed:
                ctx.violation("fixed_cell", f"fixed cell {C} has map {c.alloc} fixed={c.rect.fixed}, expected {{{name}: 1.0}} :: {what}")
            exact_area[name] += C.area
            continue
        if c.rect.fixed:
            ctx.violation("refinable_flagged_fixed", f"cell {C} flagged fixed")
        present = 0
        for name, shp in shapes.items():
            ex = sum((C.inter_area(s) for s in shp), F(0)) / C.area
            if not is_fixed[name]:
                exact_area[name] += ex * C.area
            got = c.alloc.get(name)
            if ex > 0:
                touching[name] = touching.get(name, 0) + 1
            if ex == 0 or ex >= F(1, 10 ** 9):
                ctx.count("membership_judged")
                if ex == 0 and not zero and got is not None:
                    ctx.violation("listed_without_cover", f"{name} listed in cell {C} with ratio {got!r} but covers none of it :: {what}")
                if ex == 0 and zero and got != 0:
                    ctx.violation("zero_entry_missing", f"{name} should be listed with ratio 0 in cell {C}, got {got!r} :: {what}")
                if ex > 0 and got is None:
                    ctx.violation("not_listed", f"{name} covers {float(ex)} of cell {C} but is not listed :: {what}")
            else:
                ctx.gray("membership_tiny_overlap")
            if got is not None:
                ctx.count("ratios_compared")
                present += 1 if ex > 0 else 0
                if abs(F(got) - ex) > F(1, 10 ** 9):
                    ctx.violation("ratio", f"{name} in cell {C}: ratio {got!r}, exact overlap fraction {float(ex)!r} :: {what}")
                if ex >= 1:
                    ctx.count("full_cover_cells")
        if present >= 2:
            shared = True
    ctx.nontrivial(shared or any(v >= 2 for v in touching.values()))
    for name, ea in exact_area.items():
        if name in alloc._module2rect if hasattr(alloc, "_module2rect") else True:
            ok, a = ctx.call(alloc.area, name)
            if not ok:
                if ea > F(1, 10 ** 9) * F(scale) ** 2:
                    ctx.violation("module_missing", f"{name} has exact allocated area {float(ea)} but area() raised {a!r}")
                continue
            ctx.count("module_areas_compared")
            if abs(F(a) - ea) > F(1, 10 ** 9) * max(ea, F(scale) ** 2 / 1000):
                ctx.violation("module_area", f"area({name}) = {a!r}, exact area of its shape on the cells {float(ea)!r} :: {what}")
