"""C04 - Netlist write -> read round trip preserves the design.

Monitor: for every generated document the real Netlist is loaded (n1), written, re-read (n2) and the
two loaded objects are compared field by field through the public API; the second write must be
text-identical to the first."""
from fv import netutil as nu
from fv.gen import netlists as gn

ID = "C04"
RULE = ("netlist documents covering every attribute combination the reader accepts (soft: scalar / per-region areas, centre, aspect ratio scalar or pair, rectangles in named regions; "
        "hard 1-5 rectangles STOG or not; flippable; fixed; terminals with/without centre, fixed terminals; explicit false flags; nets of arity 2-6, weights absent/int/decimal/1e-3/1e6), "
        "as trees, block- and flow-style YAML text and files; non-trivial = >=2 modules or a module with rectangles; distinct = distinct document")
ASSUMPTIONS = [
    "finite numbers only (NaN/inf would make 'same' meaningless)",
    "the two loaded objects are compared (centres of modules with rectangles are recomputed on load, so document-vs-object comparison would be wrong); numbers with relative 1e-12, centres 1e-9",
    "each load happens with the class-wide tolerance undefined, as in a fresh process",
]
CASES = {"quick": 10000, "thorough": 400000}
MIN_CASES = {"quick": 2500, "thorough": 20000}
REQUIRED_COUNTERS = ["after_an_earlier_document_with_a_yaml_1.1_directive", "roundtrips_compared", "second_write_compared", "modules_compared", "kind:soft", "kind:hard", "kind:flip", "kind:fixed", "kind:terminal",
                     "multi_region_area_modules", "weighted_nets", "file_writes_compared"]


def setup(ctx):
    import frame.netlist.netlist  # noqa


def generate(rng, tier, i):
    doc = gn.gen_netlist_doc(rng)
    return {"cls": rng.choice(["tree", "text_block", "text_flow", "file", "handle"]), "doc": doc,
            "yaml11_first": rng.choice(["tree", "file", "handle"]) if rng.random() < 0.12 else None}


def directed():
    return [
        {"cls": "tree", "doc": {"Modules": {"B3": {"area": {"DSP": 2, "LUT": 3}}, "B4": {"area": 1.5}}, "Nets": [["B3", "B4", 2.5]]}},
        {"cls": "tree", "doc": {"Modules": {"H": {"hard": True, "flip": True, "rectangles": [[2.0, 1.0, 4.0, 2.0], [1.0, 2.5, 2.0, 1.0]]}, "S": {"area": 4, "center": [1, 1]}}, "Nets": [["H", "S"]]}},
    ]


OLD_STYLE_DOC = "%YAML 1.1\n---\nModules:\n  A: {area: 4, center: [1, 1]}\n  B: {area: 9, center: [5, 2]}\nNets:\n  - [A, B, 3]\n"


def check(case, ctx):
    doc = case["doc"]
    src = doc
    via = "tree"
    if case.get("yaml11_first"):
        # an earlier, unrelated document of the same process carried a '%YAML 1.1' directive (many tools emit one)
        ok, r = ctx.call(nu.load, OLD_STYLE_DOC, case["yaml11_first"])
        ctx.count("after_an_earlier_document_with_a_yaml_1.1_directive")
        if not ok:
            ctx.violation("wellformed_rejected", f"reader rejected a well-formed document with a %YAML 1.1 directive: {type(r).__name__}: {str(r)[:200]}")
    if case["cls"] == "text_block":
        src = gn.doc_text(doc, flow=False)
    elif case["cls"] == "text_flow":
        src = gn.doc_text(doc, flow=True)
    elif case["cls"] == "file":
        src, via = gn.doc_text(doc, flow=False), "file"
    elif case["cls"] == "handle":
        src, via = gn.doc_text(doc, flow=False), "handle"
    ok, n1 = ctx.call(nu.load, src, via)
    if not ok:
        ctx.violation("wellformed_rejected", f"reader rejected a well-formed document: {type(n1).__name__}: {str(n1)[:200]} :: {doc}")
        return
    for m in n1.modules:
        k = "terminal" if m.is_terminal else "fixed" if m.is_fixed else "flip" if m.flip else "hard" if m.is_hard else "soft"
        ctx.count("kind:" + k)
        if len(m.area_regions) > 1 or (len(m.area_regions) == 1 and "_" not in m.area_regions):
            ctx.count("multi_region_area_modules")
    ctx.count("weighted_nets", sum(1 for e in n1.edges if e.weight != 1))
    ctx.nontrivial(n1.num_modules >= 2 or n1.num_rectangles > 0)
    s1 = nu.summary(n1)
    ok, text = ctx.call(n1.write_yaml)
    if not ok or not isinstance(text, str):
        ctx.violation("write_raised", f"write_yaml failed: {text!r} :: {doc}")
        return
    if case["cls"] in ("file", "handle"):
        # writing to a file must produce the same document as writing to a string
        import os
        path = os.path.join(os.environ.get("FV_SCRATCH", "/tmp"), f"c04_{os.getpid()}.yaml")
        ok, r = ctx.call(n1.write_yaml, path)
        ctx.count("file_writes_compared")
        if not ok or not os.path.exists(path) or open(path).read() != text:
            ctx.violation("file_write_differs", f"write_yaml(filename) differs from write_yaml(): {r!r}")
        if os.path.exists(path):
            os.remove(path)
    ok, n2 = ctx.call(nu.load, text, "tree")
    if not ok:
        ctx.violation("written_document_rejected", f"reader rejected the written document: {type(n2).__name__}: {str(n2)[:200]} :: written=\n{text[:600]}")
        return
    ctx.count("roundtrips_compared")
    ctx.count("modules_compared", n1.num_modules)
    diffs = nu.diff_summaries(s1, nu.summary(n2))
    for dmsg in diffs[:3]:
        kind = "roundtrip_" + ("kind" if ": kind" in dmsg else "areas" if "per-region" in dmsg else "centre" if "centre" in dmsg else "aspect" if "aspect" in dmsg
                               else "rectangles" if "rectangles" in dmsg else "nets" if "net" in dmsg else "modules")
        ctx.violation(kind, f"{dmsg} :: doc={doc}")
    ok, text2 = ctx.call(n2.write_yaml)
    ctx.count("second_write_compared")
    if not ok or text2 != text:
        ctx.violation("rewrite_differs", f"writing the reloaded design gives a different document:\n{text[:400]}\n---\n{str(text2)[:400]}")
