"""C05 - Loaded netlist matches its definition; ill-formed designs are rejected.

Monitor: (i) every derived quantity of the loaded Netlist is compared with a reference evaluator that
works on the plain source document (exact Fractions); (ii) one defect of each listed class is
injected at a random place of a well-formed document and the reader must refuse it."""
import copy
from fractions import Fraction as F

from fv import netutil as nu
from fv.gen import netlists as gn

ID = "C05"
RULE = ("well-formed documents from the C04 generator (terminals without rectangles); for each of 11 defect classes one defect injected at a random module / net / rectangle / attribute "
        "by a clear margin; non-trivial = >=2 modules or >=1 net (well-formed) / every defective document; distinct = distinct document")
ASSUMPTIONS = [
    "rejection = any exception from Netlist(...); acceptance of a defective document is the violation",
    "areas/centres compared with relative 1e-9 against exact rational evaluation; wire length with relative 1e-9 (math.sqrt on exact differences)",
    "wire length is only defined (and compared) when every member of every net has a centre",
    "overlapping hard rectangles overlap by >= 25% of the smaller one (far above the area tolerance)",
]
CASES = {"quick": 36000, "thorough": 1000000}
MIN_CASES = {"quick": 8000, "thorough": 30000}
DEFECTS = ["unknown_module", "nonpositive_weight", "nonpositive_area", "soft_without_area", "hard_with_area", "hard_without_rectangles",
           "hard_overlapping_rectangles", "unknown_attribute", "invalid_name", "one_pin_net", "nonpositive_rectangle"]
REQUIRED_CLASSES = ["wellformed"] + ["defect:" + d for d in DEFECTS]
REQUIRED_COUNTERS = ["entry:file", "entry:handle", "entry:tree", "entry:text_block", "entry:text_flow", "areas_compared", "centres_compared", "rectangle_lists_compared", "wire_lengths_compared", "defective_documents_judged"]


def setup(ctx):
    import frame.netlist.netlist  # noqa


def inject(rng, doc, defect):
    d = copy.deepcopy(doc)
    mods = d["Modules"]
    names = list(mods)
    soft = [n for n in names if not any(k in mods[n] and mods[n][k] is not False for k in ("hard", "fixed", "terminal")) and "terminal" not in mods[n]]
    hard = [n for n in names if (mods[n].get("hard") is True or mods[n].get("fixed") is True) and "terminal" not in mods[n]]
    nets = d.get("Nets", [])
    if defect == "unknown_module":
        if not nets:
            d["Nets"] = nets = [[names[0], "Ghost"]] if names else None
            return d if names else None
        e = rng.choice(nets)
        k = rng.randrange(len(e) - (1 if isinstance(e[-1], (int, float)) else 0))
        e[k] = rng.choice(["Ghost", "nobody_1", names[0] + "x"])
        if e[k] in names:
            return None
        return d
    if defect == "nonpositive_weight":
        if len(names) < 2:
            return None
        if not nets:
            d["Nets"] = nets = [[names[0], names[1]]]
        e = rng.choice(nets)
        w = rng.choice([0, -1, -0.5, 0.0, -1e-9])
        if isinstance(e[-1], (int, float)):
            e[-1] = w
        else:
            e.append(w)
        return d
    if defect == "nonpositive_area":
        if not soft:
            return None
        n = rng.choice(soft)
        a = mods[n]["area"]
        bad = rng.choice([0, -1, 0.0, -2.5])
        if isinstance(a, dict):
            a[rng.choice(list(a))] = bad
        else:
            mods[n]["area"] = bad
        return d
    if defect == "soft_without_area":
        if not soft:
            return None
        del mods[rng.choice(soft)]["area"]
        return d
    if defect == "hard_with_area":
        if not hard:
            return None
        mods[rng.choice(hard)]["area"] = rng.choice([3, 2.5, {"LUT": 4}])
        return d
    if defect == "hard_without_rectangles":
        if not hard:
            return None
        n = rng.choice(hard)
        del mods[n]["rectangles"]
        return d
    if defect == "hard_overlapping_rectangles":
        if not hard:
            return None
        n = rng.choice(hard)
        rs = nu._rects_of(mods[n])
        if len(rs) >= 2 and rng.random() < 0.5:
            # a branch pushed 30% of its depth into the trunk (the first rectangle): with three or more rectangles the overlapping pair is
            # neither adjacent in the list nor in any sorted order
            rs = [list(x) for x in rs]
            t = rs[0]
            k = rng.randrange(1, len(rs))
            r = rs[k]
            dx, dy = t[0] - r[0], t[1] - r[1]
            if abs(dx) >= (t[2] + r[2]) / 2 * (1 - 1e-9):
                r[0] += (1 if dx > 0 else -1) * 0.3 * r[2]
            elif abs(dy) >= (t[3] + r[3]) / 2 * (1 - 1e-9):
                r[1] += (1 if dy > 0 else -1) * 0.3 * r[3]
            else:
                return None
            if rng.random() < 0.5:
                rs.reverse()
            mods[n]["rectangles"] = rs
            mods[n].pop("flip", None)
            return d
        r = list(rng.choice(rs))
        new = [r[0] + r[2] * rng.choice([0.25, -0.25, 0.5, 0.0]), r[1] + r[3] * rng.choice([0.25, -0.25, 0.0]), r[2], r[3]]
        if new[0] - new[2] / 2 < 0 or new[1] - new[3] / 2 < 0:
            new[0], new[1] = r[0] + r[2] * 0.25, r[1] + r[3] * 0.25
        rs = [list(x) for x in rs]
        rs.insert(rng.randint(0, len(rs)), new)
        mods[n]["rectangles"] = rs
        mods[n].pop("flip", None)
        return d
    if defect == "unknown_attribute":
        if not names:
            return None
        if rng.random() < 0.25:
            d[rng.choice(["Edges", "modules", "Die"])] = []
        else:
            mods[rng.choice(names)][rng.choice(["colour", "Area", "weight", "rectangle", "centre"])] = 1
        return d
    if defect == "invalid_name":
        if not names:
            return None
        n = rng.choice(names)
        bad = rng.choice(["9lives", "a-b", "two words", "", "x.y", "é", "B2\n", " lead", "trail ", "a\tb"])
        d["Modules"] = {(bad if k == n else k): v for k, v in mods.items()}
        for e in nets:
            for i, x in enumerate(e):
                if x == n:
                    e[i] = bad
        return d
    if defect == "one_pin_net":
        if not names:
            return None
        e = [rng.choice(names)]
        if rng.random() < 0.6:
            e.append(rng.choice([2.0, 3, 0.5, 1]))
        d.setdefault("Nets", [])
        d["Nets"].insert(rng.randint(0, len(d["Nets"])), e)
        return d
    if defect == "nonpositive_rectangle":
        with_r = [n for n in names if "rectangles" in mods[n]]
        if not with_r:
            return None
        n = rng.choice(with_r)
        rs = [list(x) for x in nu._rects_of(mods[n])]
        rng.choice(rs)[rng.choice([2, 3])] = rng.choice([0, 0.0, -1, -0.25])
        mods[n]["rectangles"] = rs
        return d
    return None


def generate(rng, tier, i):
    doc = gn.gen_netlist_doc(rng)
    via = rng.choice(["tree", "tree", "text_block", "text_flow", "file", "handle"])
    if i % 3 == 0:
        return {"cls": "wellformed", "doc": doc, "via": via}
    defect = DEFECTS[(i // 3) % len(DEFECTS)]
    for _ in range(6):
        bad = inject(rng, doc, defect)
        if bad is not None:
            return {"cls": "defect:" + defect, "doc": bad, "via": via if defect not in ("invalid_name",) else "tree"}
        doc = gn.gen_netlist_doc(rng)
    return {"cls": "wellformed", "doc": doc, "via": via}


def directed():
    return [
        {"cls": "defect:one_pin_net", "doc": {"Modules": {"M1": {"area": 4, "center": [1, 1]}, "M2": {"area": 2, "center": [3, 1]}}, "Nets": [["M1", "M2"], ["M1", 2.0]]}, "via": "tree"},
        {"cls": "defect:one_pin_net", "doc": {"Modules": {"M1": {"area": 4, "center": [1, 1]}}, "Nets": [["M1", 3]]}, "via": "text_block"},
        # witness of the recorded known finding C05-area-tolerance-not-scaled (overlap of 25% of a rectangle at feature size 3.3e-5)
        {"cls": "defect:hard_overlapping_rectangles", "via": "tree",
         "doc": {"Modules": {"H": {"hard": True, "rectangles": [[0.0005775, 0.0002475, 0.000165, 9.9e-05], [0.00061875, 0.0002475, 0.000165, 9.9e-05]]}}}},
        # the same overlap at unit scale must be (and is) rejected
        {"cls": "defect:hard_overlapping_rectangles", "via": "tree",
         "doc": {"Modules": {"H": {"hard": True, "rectangles": [[5.775, 2.475, 1.65, 0.99], [6.1875, 2.475, 1.65, 0.99]]}}}},
    ]


def classify(case, vio):
    """known finding C05-area-tolerance-not-scaled: an overlapping hard module is accepted only because the
    overlap area is below the class-wide area tolerance sqrt(1e-12 * smallest feature) a fresh load sets."""
    import math
    from fv.exact import XR
    if vio["kind"] != "defect_accepted:hard_overlapping_rectangles":
        return None
    doc = case["doc"]
    smallest = math.inf
    for m in doc["Modules"].values():
        for r in nu._rects_of(m):
            smallest = min(smallest, r[2], r[3])
        a = m.get("area")
        if isinstance(a, (int, float)):
            smallest = min(smallest, math.sqrt(a))
        elif isinstance(a, dict):
            smallest = min(smallest, math.sqrt(sum(a.values())))
    area_eps = math.sqrt(smallest * 1e-12)
    worst = 0.0
    for m in doc["Modules"].values():
        if m.get("hard") is True or m.get("fixed") is True:
            rs = [XR.from_cwh(*r[:4]) for r in nu._rects_of(m)]
            for i in range(len(rs)):
                for j in range(i + 1, len(rs)):
                    worst = max(worst, float(rs[i].inter_area(rs[j])))
    return "C05-area-tolerance-not-scaled" if worst <= area_eps * (1 + 1e-6) else None


def rel_close(a, b, rel=1e-9, abs_=0.0):
    return abs(a - b) <= rel * max(abs(a), abs(b)) + abs_


def check(case, ctx):
    doc = case["doc"]
    src = doc if case["via"] == "tree" else gn.doc_text(doc, flow=(case["via"] == "text_flow"))
    ctx.count("entry:" + case["via"])
    ok, n = ctx.call(nu.load, src, case["via"] if case["via"] in ("file", "handle") else "tree")
    if case["cls"] != "wellformed":
        ctx.count("defective_documents_judged")
        ctx.nontrivial(True)
        if ok:
            ctx.violation("defect_accepted:" + case["cls"][7:], f"document with defect {case['cls'][7:]} was loaded: {doc}")
        return
    if not ok:
        ctx.violation("wellformed_rejected", f"{type(n).__name__}: {str(n)[:200]} :: {doc}")
        return
    ctx.nontrivial(n.num_modules >= 2 or n.num_edges >= 1)
    refs = {name: nu.ref_module(name, m) for name, m in doc["Modules"].items()}
    if [m.name for m in n.modules] != list(refs):
        ctx.violation("modules_order", f"loaded {[m.name for m in n.modules]} from {list(refs)}")
        return
    all_rects, fixed_rects = [], []
    for m in n.modules:
        r = refs[m.name]
        ctx.count("areas_compared")
        if not rel_close(F(m.area()), r["area"]):
            ctx.violation("area", f"{m.name}: area() = {m.area()!r}, definition {float(r['area'])!r} :: {doc['Modules'][m.name]}")
        src_m = doc["Modules"][m.name]
        if not r["hard"]:
            a = src_m["area"]
            want = {"_": float(a)} if isinstance(a, (int, float)) else {k: float(v) for k, v in a.items()}
            if m.area_regions != want:
                ctx.violation("area_regions", f"{m.name}: per-region areas {m.area_regions}, document {want}")
        ctx.count("centres_compared")
        if r["center"] is None:
            if m.center is not None:
                ctx.violation("centre", f"{m.name}: centre {m.center} but none is defined")
        else:
            mag = max(abs(float(r["center"][0])), abs(float(r["center"][1])), 1e-300)
            if m.center is None or abs(F(m.center.x) - r["center"][0]) > 1e-9 * mag or abs(F(m.center.y) - r["center"][1]) > 1e-9 * mag:
                ctx.violation("centre", f"{m.name}: centre {m.center}, definition ({float(r['center'][0])!r},{float(r['center'][1])!r})")
        got = sorted(nu.rect_tuple(x)[:5] for x in m.rectangles)
        if got != sorted(r["rects"]):
            ctx.violation("module_rectangles", f"{m.name}: rectangles {got}, document {sorted(r['rects'])}")
        for x in m.rectangles:
            if bool(x.fixed) != r["fixed"] or bool(x.hard) != r["hard"]:
                ctx.violation("rectangle_flags", f"{m.name}: rectangle flags fixed={x.fixed} hard={x.hard}, module fixed={r['fixed']} hard={r['hard']}")
                break
        all_rects += r["rects"]
        if r["fixed"]:
            fixed_rects += r["rects"]
    ctx.count("rectangle_lists_compared")
    if sorted(nu.rect_tuple(x)[:5] for x in n.rectangles) != sorted(all_rects):
        ctx.violation("rectangles_list", "Netlist.rectangles differs from the rectangles of the document")
    if sorted(nu.rect_tuple(x)[:5] for x in n.fixed_rectangles()) != sorted(fixed_rects):
        ctx.violation("fixed_rectangles_list", "Netlist.fixed_rectangles() differs from the rectangles of the fixed modules")
    # nets
    want_nets = []
    for e in doc.get("Nets", []):
        e = list(e)
        w = 1.0
        if isinstance(e[-1], (int, float)):
            w = float(e.pop())
        want_nets.append((e, w))
    got_nets = [([b.name for b in e.modules], e.weight) for e in n.edges]
    if got_nets != want_nets:
        ctx.violation("nets", f"nets loaded {got_nets}, document {want_nets}")
    wl = nu.ref_wire_length(doc, refs)
    if wl is not None:
        ctx.count("wire_lengths_compared")
        ok, got = ctx.call(lambda: n.wire_length)
        if not ok:
            ctx.violation("wire_length_raised", f"wire_length raised {got!r} although every net member has a centre")
        elif not rel_close(got, wl, 1e-9, 1e-12 * max(1.0, abs(wl))):
            ctx.violation("wire_length", f"wire_length {got!r}, definition {wl!r} :: nets={doc.get('Nets')}")
    else:
        ctx.count("wire_length_undefined_member_without_centre")
