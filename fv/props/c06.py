"""C06 - Single-trunk orthogon recognition is sound and complete.

Monitor: the real create_stog (directly, through Module.create_stog, and through Netlist loading) is
run on every permutation of generated rectangle lists (all permutations for n<=5) and judged by an
exact-arithmetic reference recogniser that uses the same tolerance semantics plus a gray zone; object
identity / value preservation is checked before vs after."""
import itertools
from fractions import Fraction as F

from fv.exact import XR
from fv.gen import geo

ID = "C06"
RULE = ("rectangle lists: constructive orthogons (0-3 branches per side, flush corners, equal-area trunk candidates), near misses (gap, overhang, "
        "overlap), repeated rectangles, random bags; all permutations for n<=5 (random ones beyond), direct / Module / Netlist entry; "
        "non-trivial = >=2 rectangles; distinct = distinct rectangle list")
ASSUMPTIONS = [
    "tolerance semantics of the recogniser are those of the code (distance tolerance eps, area tolerance sqrt(eps)); a candidate is not judged when an exact quantity lies within [0.5,2]x the tolerance (gray)",
    "class-wide tolerance pinned per case to 1e-12 * smallest rectangle side (what Netlist loading sets in a fresh process)",
]
CASES = {"quick": 8000, "thorough": 300000}
MIN_CASES = {"quick": 3000, "thorough": 60000}
REQUIRED_CLASSES = ["stog", "near_gap", "near_overhang", "near_overlap", "dup_trunk", "dup_branch", "bag", "equal_area"]
REQUIRED_COUNTERS = ["explicit_distance_and_area_tolerance", "calls_judged", "judged_true", "judged_false", "roles_checked", "identity_checked", "via:netlist", "via:module", "via:direct", "netlist_kind:soft", "netlist_kind:hard", "netlist_kind:fixed", "re_recognition_after_in_place_change", "via:netlist_api"]

_g = None
_mod = None
_net = None
SIDES = ["N", "S", "E", "W"]


def setup(ctx):
    global _g, _mod, _net
    from frame.geometry import geometry
    from frame.netlist import module, netlist
    _g, _mod, _net = geometry, module, netlist


def _build_stog(rng, fam):
    """trunk + branches on a lattice; returns list of exact (x0,x1,y0,y1)"""
    n = 14
    sc = rng.choice([1.0, 1.0, 10.0, 1e3, 1e-3])
    xs = geo.make_axis(rng, fam, 3 * n, scale=sc)
    ys = geo.make_axis(rng, fam, 3 * n, scale=sc)
    ti0, ti1 = n, n + rng.randint(2, n)
    tj0, tj1 = n, n + rng.randint(2, n)
    rects = [(xs[ti0], xs[ti1], ys[tj0], ys[tj1])]
    nb = [rng.choice([0, 0, 1, 1, 2, 3]) for _ in range(4)]
    for side, k in zip(SIDES, nb):
        lo, hi = (ti0, ti1) if side in "NS" else (tj0, tj1)
        cuts = sorted(rng.sample(range(lo, hi + 1), min(2 * k, hi - lo + 1)))
        if rng.random() < 0.4 and cuts:
            cuts[0] = lo            # flush with a trunk corner
        if rng.random() < 0.3 and len(cuts) >= 2:
            cuts[-1] = hi
        cuts = sorted(set(cuts))
        for a, b in zip(cuts[0::2], cuts[1::2]):
            d = rng.randint(1, n - 1)
            if side == "N":
                rects.append((xs[a], xs[b], ys[tj1], ys[tj1 + d]))
            elif side == "S":
                rects.append((xs[a], xs[b], ys[tj0 - d], ys[tj0]))
            elif side == "E":
                rects.append((xs[ti1], xs[ti1 + d], ys[a], ys[b]))
            else:
                rects.append((xs[ti0 - d], xs[ti0], ys[a], ys[b]))
    return rects


def generate(rng, tier, i):
    fam = geo.pick_family(rng)
    cls = ["stog", "near_gap", "near_overhang", "near_overlap", "dup_trunk", "dup_branch", "bag", "equal_area", "stog", "single"][i % 10]
    if rng.random() < 0.1:
        cls = "bag"
    ex = _build_stog(rng, fam)
    if cls != "single" and len(ex) == 1:
        # make sure there is at least one branch
        x0, x1, y0, y1 = ex[0]
        ex.append((x0, (x0 + x1) / 2, y1, y1 + (y1 - y0)))
    rects = [geo.cwh(*e) for e in ex]
    scale = max(max(r[2], r[3]) for r in rects)
    if cls == "single":
        rects = rects[:1]
    elif cls.startswith("near_"):
        k = rng.randrange(1, len(rects))
        t, r = rects[0], rects[k]
        delta = rng.choice([1e-10, 3e-10, 1e-9, 1e-8, 1e-7, 1e-6, 1e-5, 1e-4, 1e-3, 1e-2, 0.1]) * scale
        # which side is r on?
        horizontal = abs(r[1] - t[1]) * t[2] < abs(r[0] - t[0]) * t[3] if False else None
        tx0, tx1, ty0, ty1 = t[0] - t[2] / 2, t[0] + t[2] / 2, t[1] - t[3] / 2, t[1] + t[3] / 2
        ry0, rx0 = r[1] - r[3] / 2, r[0] - r[2] / 2
        if ry0 >= ty1 - 1e-9 * scale:
            side = "N"
        elif r[1] + r[3] / 2 <= ty0 + 1e-9 * scale:
            side = "S"
        elif rx0 >= tx1 - 1e-9 * scale:
            side = "E"
        else:
            side = "W"
        sgn = {"N": (0, 1), "S": (0, -1), "E": (1, 0), "W": (-1, 0)}[side]
        if cls == "near_gap":
            r[0] += sgn[0] * delta
            r[1] += sgn[1] * delta
        elif cls == "near_overlap":
            delta = rng.choice([1e-2, 0.05, 0.2]) * min(r[2], r[3], t[2], t[3])
            r[0] -= sgn[0] * delta
            r[1] -= sgn[1] * delta
        else:  # overhang beyond the trunk's extent: widen the branch past the trunk end
            if side in "NS":
                grow = (tx1 - (r[0] + r[2] / 2)) + delta if rng.random() < 0.5 else ((r[0] - r[2] / 2) - tx0) + delta
                r[2] += 2 * grow
            else:
                grow = (ty1 - (r[1] + r[3] / 2)) + delta if rng.random() < 0.5 else ((r[1] - r[3] / 2) - ty0) + delta
                r[3] += 2 * grow
    elif cls == "dup_trunk":
        rects.insert(rng.randint(0, len(rects)), list(rects[0]))
    elif cls == "dup_branch":
        k = rng.randrange(1, len(rects))
        rects.insert(rng.randint(0, len(rects)), list(rects[k]))
    elif cls == "equal_area":
        # two equal rectangles side by side (+ maybe a branch on the far side): both can be trunk
        t = rects[0]
        rects = [t, [t[0] + t[2], t[1], t[2], t[3]]]
        if rng.random() < 0.5:
            rects.append([t[0] - t[2] / 2 - t[2] / 4, t[1], t[2] / 2, t[3] / 2])
        if rng.random() < 0.3:
            rects[1][3] = t[3] / 2          # no longer equal: only one direction works
    elif cls == "bag":
        n = rng.randint(2, 7)
        sc = rng.choice([1.0, 10.0, 1e3, 1e-3])
        xs = geo.make_axis(rng, fam, 8, scale=sc)
        ys = geo.make_axis(rng, fam, 8, scale=sc)
        rects = []
        for _ in range(n):
            i0 = rng.randint(0, 7)
            i1 = rng.randint(i0 + 1, 8)
            j0 = rng.randint(0, 7)
            j1 = rng.randint(j0 + 1, 8)
            rects.append(geo.cwh(xs[i0], xs[i1], ys[j0], ys[j1]))
    # shift into the positive quadrant (netlist reader requires non-negative numbers)
    minx = min(r[0] - r[2] / 2 for r in rects)
    miny = min(r[1] - r[3] / 2 for r in rects)
    if minx < 0 or miny < 0:
        for r in rects:
            r[0] += max(0.0, -minx)
            r[1] += max(0.0, -miny)
    rects = rects[:9]
    rng.shuffle(rects) if cls in ("bag",) else None
    via = rng.choice(["direct", "direct", "module", "netlist", "netlist_api"])
    return {"cls": cls, "fam": fam, "rects": rects, "via": via, "pseed": rng.randrange(1 << 30)}


def directed():
    r = [1.0, 1.0, 2.0, 2.0]
    return [
        {"cls": "directed_dup_trunk", "fam": "int", "rects": [list(r), list(r)], "via": "direct", "pseed": 1},
        {"cls": "directed_dup_trunk", "fam": "int", "rects": [list(r), list(r), [1.0, 2.5, 1.0, 1.0]], "via": "direct", "pseed": 2},
        {"cls": "directed_dup_trunk", "fam": "int", "rects": [[2.0, 2.0, 4.0, 2.0], [2.0, 2.0, 4.0, 2.0]], "via": "netlist", "pseed": 3},
    ]


# ---------------------------------------------------------------------------------------------
# exact reference recogniser (same tolerance semantics, three-valued)
# ---------------------------------------------------------------------------------------------
def _lt(a, b_):      # a < b with gray band around equality scaled by tolerance handled by callers
    return a < b_


def ref_location(T: XR, R: XR, eps: F, aeps: F, noise: F = F(0)):
    """returns (side or None, gray: bool).  noise bounds the rounding error of the code's float
    bounding boxes (a few ulps of the largest coordinate): quantities closer than that to a
    decision boundary are not judged."""
    gray = False
    ov = T.inter_area(R)
    if ov > 2 * aeps:
        return None, False
    if ov >= aeps / 2:
        gray = True
    cands = []
    for side, dist in (("N", abs(T.y1 - R.y0)), ("S", abs(T.y0 - R.y1)), ("E", abs(T.x1 - R.x0)), ("W", abs(T.x0 - R.x1))):
        if dist < eps / 2 - noise:
            cands.append((side, False))
        elif dist <= 2 * eps + noise:
            cands.append((side, True))
    res = None
    for side, g in cands:
        if side in "NS":
            m = min(R.x0 - (T.x0 - eps), (T.x1 + eps) - R.x1)
        else:
            m = min(R.y0 - (T.y0 - eps), (T.y1 + eps) - R.y1)
        if m > eps / 2 + noise:
            if res is None:
                res = side
                gray = gray or g
        elif m >= -eps / 2 - noise:
            gray = True
    return res, gray


def ref_trunks(X: list[XR], eps: F, aeps: F, noise: F = F(0)):
    """for every index: (can_be_trunk: True/False/None(gray), sides list)"""
    out = []
    for t in range(len(X)):
        status, sides = True, []
        for r in range(len(X)):
            if r == t:
                sides.append("T")
                continue
            s, gray = ref_location(X[t], X[r], eps, aeps, noise)
            sides.append(s)
            if gray:
                status = None if status is not False else False
            elif s is None:
                status = False
        out.append((status, sides))
    return out


LOCNAME = {"TRUNK": "T", "NORTH": "N", "SOUTH": "S", "EAST": "E", "WEST": "W", "NO_POLYGON": None}


def _snapshot(objs):
    return [(id(o), o.center.x, o.center.y, o.shape.w, o.shape.h, o.region, o.fixed, o.hard) for o in objs]


def check_netlist_api(case, ctx):
    """recognition through the Netlist API: create_squares + create_stogs (a lone square is its own trunk), assign_rectangles + create_stogs"""
    g = _g
    specs = case["rects"]
    g.Rectangle.undefine_epsilon()
    a = sum(s[2] * s[3] for s in specs)
    ok, nl = ctx.call(_net.Netlist, {"Modules": {"A": {"area": a, "center": [specs[0][0], specs[0][1]]}, "B": {"area": a, "center": [specs[0][0] * 2 + 1, specs[0][1]]}}})
    if not ok:
        ctx.violation("netlist_raised", f"{nl!r}")
        return
    ctx.count("netlist_api_cases")
    nl.create_squares()
    ok, e = ctx.call(nl.create_stogs)
    for m in nl.modules:
        if not ok or not m.has_stog or m.rectangles[0].location.name != "TRUNK":
            ctx.violation("single_rectangle_not_a_trunk", f"after create_squares + create_stogs module {m.name} has_stog={m.has_stog}, role {m.rectangles[0].location.name if m.num_rectangles else None} ({e!r})")
    nl.assign_rectangles({"A": [list(s) for s in specs], "B": [list(specs[0])]})
    ok, e = ctx.call(nl.create_stogs)
    if not ok:
        ctx.violation("raised", f"create_stogs raised {e!r}")
        return
    mA, mB = nl.get_module("A"), nl.get_module("B")
    if not mB.has_stog:
        ctx.violation("single_rectangle_not_a_trunk", "a module given one rectangle through assign_rectangles is not its own trunk after create_stogs")
    eps, aeps = F(g.Rectangle.distance_epsilon()), F(g.Rectangle.area_epsilon())
    X = [XR.of(o) for o in mA.rectangles]
    import math
    noise = F(4 * math.ulp(max(max(abs(v) for v in x.as_floats()) for x in X)))
    ref = ref_trunks(X, eps, aeps, noise)
    exists = True if any(st is True for st, _ in ref) else (False if all(st is False for st, _ in ref) else None)
    if len(X) == 1:
        exists = True
    if exists is not None and bool(mA.has_stog) != exists:
        ctx.violation("wrong_verdict", f"assign_rectangles + create_stogs: has_stog={mA.has_stog}, reference {exists}; rects={specs}")


def check(case, ctx):
    if case.get("via") == "netlist_api":
        ctx.nontrivial(True)
        ctx.count("via:netlist_api")
        return check_netlist_api(case, ctx)
    g = _g
    specs = case["rects"]
    n = len(specs)
    ctx.nontrivial(n >= 2)
    smallest = min(min(s[2], s[3]) for s in specs)
    import random
    prng = random.Random(case["pseed"])
    if n <= 5:
        perms = list(itertools.permutations(range(n)))
    else:
        perms = [tuple(prng.sample(range(n), n)) for _ in range(24)]
    via = case["via"]
    ctx.count("via:" + via)
    if via == "netlist":
        perms = perms[:6]
    for perm in perms:
        g.Rectangle.undefine_epsilon()
        explicit = None
        if via != "netlist":
            if case["pseed"] % 4 == 0:
                # both tolerances given explicitly (the two-argument form): the reference below uses the values handed over,
                # not what the accessors say afterwards
                explicit = (1e-12 * smallest, 1e-4 * smallest)
                g.Rectangle.set_epsilon(*explicit)
                ctx.count("explicit_distance_and_area_tolerance")
            else:
                g.Rectangle.set_epsilon(1e-12 * smallest)
        order = [specs[k] for k in perm]
        if via == "netlist":
            kind = ["soft", "hard", "fixed"][case["pseed"] % 3]
            if kind == "soft":
                doc = {"Modules": {"M": {"area": sum(s[2] * s[3] for s in order), "rectangles": [list(s) for s in order]}}}
            else:
                doc = {"Modules": {"M": {kind: True, "rectangles": [list(s) for s in order]}}}
            ctx.count("netlist_kind:" + kind)
            ok, nl = ctx.call(_net.Netlist, doc)
            if not ok and kind != "soft" and "overlapping" in str(nl):
                ctx.count("hard_module_with_overlapping_rectangles_refused")     # C05's business, not C06's
                return
            if not ok:
                ctx.violation("netlist_raised", f"loading a {kind} module with rectangles {order} raised {type(nl).__name__}: {nl}")
                return
            m = nl.modules[0]
            objs = m.rectangles          # the list the recogniser reordered
            result = m.has_stog
            before = None                # objects are created by the loader; values are checked against the document
        else:
            objs = [g.Rectangle(center=g.Point(s[0], s[1]), shape=g.Shape(s[2], s[3])) for s in order]
            for o in objs:               # stale roles from an earlier recognition must not survive
                o.location = prng.choice(list(g.Rectangle.StogLocation))
            before = _snapshot(objs)
            if via == "module":
                m = _mod.Module("M", area=1.0)
                for o in objs:
                    m.add_rectangle(o)
                target = m.rectangles
                ok, result = ctx.call(m.create_stog)
                objs_after = target
            else:
                target = objs
                ok, result = ctx.call(g.create_stog, target)
                objs_after = target
            if not ok:
                ctx.violation("raised", f"create_stog raised {type(result).__name__}: {result} on {order}")
                return
            objs = objs_after
        eps = F(g.Rectangle.distance_epsilon())
        aeps = F(g.Rectangle.area_epsilon())
        if explicit is not None:
            eps, aeps = F(explicit[0]), F(explicit[1])
        # identity / values
        ctx.count("identity_checked")
        if before is not None:
            after = _snapshot(objs)
            if sorted(before) != sorted(after):
                ctx.violation("rectangles_altered", f"rectangles altered/dropped/duplicated: before={before} after={after}")
                return
        else:
            got = sorted((o.center.x, o.center.y, o.shape.w, o.shape.h) for o in objs)
            if got != sorted(tuple(s[:4]) for s in order) or len({id(o) for o in objs}) != len(objs):
                ctx.violation("rectangles_altered", f"loaded rectangles {got} differ from the document {order}")
                return
        X = [XR.of(o) for o in objs]
        import math
        noise = F(4 * math.ulp(max(max(abs(v) for v in x.as_floats()) for x in X)))
        ref = ref_trunks(X, eps, aeps, noise)
        exists = True if any(st is True for st, _ in ref) else (False if all(st is False for st, _ in ref) else None)
        if n == 1:
            exists = True
        locs = [LOCNAME[o.location.name] for o in objs]
        if exists is None:
            ctx.gray("trunk_candidate_in_tolerance_band")
            continue
        ctx.count("calls_judged")
        ctx.count("judged_true" if exists else "judged_false")
        if bool(result) != exists:
            ctx.violation("wrong_verdict", f"create_stog={result} but reference says a trunk {'exists' if exists else 'does not exist'}; order={order}")
            continue
        ctx.count("roles_checked")
        if not result:
            if any(l is not None for l in locs):
                ctx.violation("role_on_failure", f"not a STOG but roles {locs} are set; order={order}")
            continue
        st, sides = ref[0]
        if locs[0] != "T":
            ctx.violation("trunk_not_first", f"reported STOG but first rectangle has role {locs[0]}; roles={locs}; order={order}")
            continue
        if n > 1 and st is False:
            ctx.violation("bad_trunk", f"first rectangle cannot serve as trunk (reference sides {sides}); roles={locs}; order={order}")
            continue
        if st is True:
            for k in range(1, n):
                if locs[k] != sides[k]:
                    ctx.violation("wrong_side", f"rectangle {k} labelled {locs[k]}, reference {sides[k]}; roles={locs}; order={order}")
                    break
        # the same objects, moved / resized in place, recognised again: the answer must follow the geometry they have NOW
        if via == "direct" and n >= 2 and perm == perms[0]:
            j = prng.randrange(1, n)
            big = max(max(s_[2], s_[3]) for s_ in specs)
            how = prng.choice(["move_x", "move_y", "shrink_w", "grow_h"])
            if how == "move_x":
                objs[j].center.x += 3 * big
            elif how == "move_y":
                objs[j].center.y += 3 * big
            elif how == "shrink_w":
                objs[j].shape.w *= 0.5
            else:
                objs[j].shape.h *= 1.5
            ok, again = ctx.call(g.create_stog, objs)
            X2 = [XR.of(o) for o in objs]
            ref2 = ref_trunks(X2, eps, aeps, noise)
            ex2 = True if any(st2 is True for st2, _ in ref2) else (False if all(st2 is False for st2, _ in ref2) else None)
            ctx.count("re_recognition_after_in_place_change")
            if ok and ex2 is not None and bool(again) != ex2:
                ctx.violation("stale_geometry", f"after {how} of rectangle {j} in place create_stog={again}, reference on the current geometry says {ex2}; now={[x.as_floats() for x in X2]}")
