"""C07 - SAT layer: every posted constraint is encoded exactly.

Monitor: the clauses the real SATManager generated (sm.clauses, read after posting constraints through
its public API) are interrogated with pysat under ALL 2^n assumptions on the user's variables and
compared with direct integer evaluation of every posted constraint; the real solve()/value()/
evalexpr() are then checked against the same semantics.  The process-wide ROBDD store is shared by
all cases of a worker, and each case additionally encodes 'history' inequalities first."""
import itertools

ID = "C07"
RULE = ("per manager 1-4 constraints over <=8 user variables (10 in the thorough tier): raw clauses, imply, pairwise AMO (sizes 0-8), Heule AMO (sizes 0-14, k 3-6, negated/repeated literals), "
        "PB inequalities (1-8 terms, coefficients -9..9 incl. 0, repeated variables, both polarities, bounds -12..20, operators >=,<=,>,<,=; both ROBDD constructions), preceded by 0-6 "
        "history encodings in other managers; ALL assignments of the user variables are checked per case; non-trivial = some constraint has >=2 literals and is neither tautology nor contradiction; distinct = distinct case")
ASSUMPTIONS = [
    "variables are created with newvar before use (the API contract; solve() raises KeyError otherwise)",
    "an exception from pseudoboolencoding (operators the layer does not implement: '=' and non-clausal '>') counts as 'refused'; a refused constraint is not part of the posted set",
    "pysat (minisat22) is trusted as the satisfiability oracle for the extracted CNF; an empty clause is treated as unsatisfiable by the harness itself",
]
CASES = {"quick": 120000, "thorough": 2000000}
MIN_CASES = {"quick": 25000, "thorough": 30000}
REQUIRED_COUNTERS = ["assignments_checked", "solve_checked", "model_checked", "posted:clause", "posted:imply", "posted:amo_quadratic", "posted:amo_heule",
                     "posted:pb_plain", "posted:pb_decomposed", "op:>=", "op:<=", "op:>", "op:<", "op:=", "refused", "history_encodings", "caller_lists_compared", "posted:huge_coefficients_decomposed", "posted:huge_coefficients_plain"]
VARS = ["x0", "x1", "x2", "x3", "x4", "x5", "x6", "x7", "x8", "x9"]

_sat = _pb = _Solver = None


def setup(ctx):
    global _sat, _pb, _Solver
    from tools.rect import satmanager, pseudobool
    from pysat.solvers import Solver
    _sat, _pb, _Solver = satmanager, pseudobool, Solver


def _lit(rng, nv):
    return [rng.randrange(nv), rng.random() < 0.65]


def gen_pb(rng, nv, big=False):
    nt = rng.choice([1, 1, 2, 3, 4, 5, 6, 7, 8])
    cmax = 60 if big else 9
    terms = []
    op = rng.choice([">=", ">=", "<=", "<=", ">", "<", "="])
    if rng.random() < 0.08:
        # huge coefficients next to powers of two (cell areas in fixed point reach 2^50 and beyond): few terms, bound at a subset sum
        for _ in range(rng.choice([1, 2, 2, 3, 4])):
            k = rng.randint(20, 62)
            c = rng.choice([-1, 1, 1, 1]) * ((1 << k) + rng.choice([-1, -1, 0, 1]))
            terms.append([c] + _lit(rng, nv))
        if rng.random() < 0.5:
            terms.append([rng.choice([1, 1, 2, 3])] + _lit(rng, nv))
        sub = sum(t[0] for t in terms if rng.random() < 0.5)
        return {"k": "pb", "terms": terms, "op": op, "bound": sub + rng.choice([-1, 0, 0, 1]), "decomp": rng.random() < 0.6, "variant": rng.choice([0, 0, 0, 1, 2, 3, 4, 4, 5]), "huge": True}
    for _ in range(nt):
        c = rng.randint(-cmax, cmax) if rng.random() < 0.85 else rng.choice([0, 1, -1])
        terms.append([c] + _lit(rng, nv))
    s_pos = sum(t[0] for t in terms if t[0] > 0)
    s_neg = sum(t[0] for t in terms if t[0] < 0)
    r = rng.random()
    if r < 0.6:
        bound = rng.randint(s_neg - 1, s_pos + 1)
    elif r < 0.8:
        bound = rng.choice([0, 1, -1])
    else:
        bound = rng.randint(-12, 20)
    return {"k": "pb", "terms": terms, "op": op, "bound": bound, "decomp": rng.random() < 0.4, "variant": rng.choice([0, 0, 0, 1, 2, 3, 4, 4, 5])}


def gen_constraint(rng, nv, big=False):
    r = rng.random()
    if r < 0.12:
        return {"k": "clause", "lits": [_lit(rng, nv) for _ in range(rng.randint(1, 5))]}
    if r < 0.22:
        return {"k": "imply", "ante": [_lit(rng, nv) for _ in range(rng.randint(0, 4))], "cons": _lit(rng, nv)}
    if r < 0.34:
        n = rng.randint(0, 8)
        lits = [_lit(rng, nv) for _ in range(n)] if rng.random() < 0.3 else [[v, rng.random() < 0.7] for v in rng.sample(range(nv), min(n, nv))]
        return {"k": "amo_quadratic", "lits": lits}
    if r < 0.5:
        n = rng.randint(0, 14)
        lits = [_lit(rng, nv) for _ in range(n)] if rng.random() < 0.4 or n > nv else [[v, rng.random() < 0.7] for v in rng.sample(range(nv), n)]
        return {"k": "amo_heule", "lits": lits, "kk": rng.randint(3, 6)}
    return gen_pb(rng, nv, big)


def generate(rng, tier, i):
    big = tier == "thorough" and rng.random() < 0.3
    nv = rng.randint(1, 10 if tier == "thorough" else 8)
    cons = [gen_constraint(rng, nv, big) for _ in range(rng.choice([1, 1, 2, 3, 4]))]
    if rng.random() < 0.25:
        # the same inequality (same operand objects) posted again with another bound / operator / construction
        for c in [c for c in cons if c["k"] == "pb"][:1]:
            cons.append(dict(c, bound=c["bound"] + rng.choice([-2, -1, 0, 1]), op=rng.choice([">=", "<=", ">", "<"]), decomp=rng.random() < 0.5))
    hist = [gen_pb(rng, rng.randint(1, 8)) for _ in range(rng.choice([0, 0, 1, 3, 6]))]
    if hist and rng.random() < 0.3:
        # the probed inequality itself (or a near copy) appears in the history
        pbs = [c for c in cons if c["k"] == "pb"]
        if pbs:
            h = dict(rng.choice(pbs))
            if rng.random() < 0.5:
                h["bound"] = h["bound"] + rng.choice([-1, 1])
            hist.insert(rng.randint(0, len(hist)), h)
    return {"cls": "+".join(sorted({c["k"] for c in cons})), "nv": nv, "cons": cons, "hist": hist}


def directed():
    return [
        {"cls": "directed_strict_zero", "nv": 1, "cons": [{"k": "pb", "terms": [[1, 0, True]], "op": ">", "bound": 0, "decomp": False}], "hist": []},
        {"cls": "directed_strict_zero", "nv": 2, "cons": [{"k": "pb", "terms": [[2, 0, True], [3, 1, False]], "op": "<", "bound": 5, "decomp": False}], "hist": []},
        {"cls": "directed_strict_zero", "nv": 3, "cons": [{"k": "pb", "terms": [[1, 0, True], [1, 1, True], [1, 2, True]], "op": ">", "bound": 0, "decomp": True}], "hist": []},
    ]


# ---------------------------------------------------------------------------------------------
def lit_val(l, asg):
    v = asg[l[0]]
    return v if l[1] else 1 - v


def holds(c, asg):
    k = c["k"]
    if k == "clause":
        return any(lit_val(l, asg) for l in c["lits"])
    if k == "imply":
        return (not all(lit_val(l, asg) for l in c["ante"])) or bool(lit_val(c["cons"], asg))
    if k in ("amo_quadratic", "amo_heule"):
        return sum(lit_val(l, asg) for l in c["lits"]) <= 1
    s = sum(t[0] * lit_val(t[1:], asg) for t in c["terms"])
    b = c["bound"]
    return {">=": s >= b, "<=": s <= b, ">": s > b, "<": s < b, "=": s == b}[c["op"]]


_term_cache: dict = {}


def shared_term(t, lit):
    """the caller keeps its Term objects and uses them in several constraints (and several times in one): one object per (coefficient, literal)"""
    key = (t[0], t[1], t[2])
    if key not in _term_cache:
        _term_cache[key] = _pb.Term(lit(t[1:]), t[0])
    return _term_cache[key]


def build_ineq(c, lit):
    pb = _pb
    e = pb.Expr()
    variant = c.get("variant", 0)
    if variant == 1:
        # -1 * (sum of the negated terms)
        neg = pb.Expr()
        for t in c["terms"]:
            neg = neg + pb.Term(lit(t[1:]), -t[0])
        e = -1 * neg
    elif variant == 2:
        # A - B with the terms of negative coefficient moved to B, the result doubled on both sides later
        a_, b_ = pb.Expr(), pb.Expr()
        for t in c["terms"]:
            if t[0] >= 0:
                a_ = a_ + pb.Term(lit(t[1:]), t[0])
            else:
                b_ = b_ + pb.Term(lit(t[1:]), -t[0])
        e = a_ - b_
    elif variant == 3:
        # a negative multiple of an expression holding negated literals: -2*(...) compared with -2*bound (operator mirrored)
        neg = pb.Expr()
        for t in c["terms"]:
            neg = neg + pb.Term(-lit(t[1:]), t[0]) + (-t[0])        # c*l = c - c*(not l)  ->  -(c*l) = c*(not l) - c
        e = -1 * neg
    for t in (c["terms"] if variant in (0, 4, 5) else []):
        e = e + shared_term(t, lit)
    if variant in (4, 5):
        # through the comparison operators (a bare Term on the left when there is a single term)
        lhs = shared_term(c["terms"][0], lit) if variant == 4 and len(c["terms"]) == 1 else e
        b = c["bound"]
        return {">=": lambda: lhs >= b, "<=": lambda: lhs <= b, ">": lambda: lhs > b, "<": lambda: lhs < b, "=": lambda: lhs == b}[c["op"]]()
    rhs = pb.Expr() + c["bound"]
    return pb.Ineq(e, rhs, c["op"])


class CallerListAltered(Exception):
    pass


def post(sm, c, lit):
    """posts one constraint; the literal list handed over stays the caller's (an 'exactly one' is posted as an at-most-one
    followed by a clause over the SAME list object): it must come back as it went in"""
    k = c["k"]
    lst = None
    if k == "clause":
        lst = [lit(l) for l in c["lits"]]
        sm.add_clause(lst)
    elif k == "imply":
        lst = [lit(l) for l in c["ante"]]
        sm.imply(lst, lit(c["cons"]))
    elif k == "amo_quadratic":
        lst = [lit(l) for l in c["lits"]]
        sm.quadraticencoding(lst)
    elif k == "amo_heule":
        lst = [lit(l) for l in c["lits"]]
        sm.heuleencoding(lst, c["kk"])
    else:
        sm.pseudoboolencoding(build_ineq(c, lit), c["decomp"])
    if lst is not None:
        want = [lit(l) for l in (c["ante"] if k == "imply" else c["lits"])]
        if len(lst) != len(want) or any((a.v, a.s) != (b.v, b.s) for a, b in zip(lst, want)):
            raise CallerListAltered(f"{k}: the caller's literal list {[(b.v, b.s) for b in want]} came back as {[(getattr(a, 'v', a), getattr(a, 's', None)) for a in lst]}")


def check(case, ctx):
    pb, sat = _pb, _sat
    nv = case["nv"]
    # ---- history in other managers (shares the process-wide diagram store) ----------------------
    for h in case["hist"]:
        hm = sat.SATManager()
        hv = [hm.newvar(VARS[k]) for k in range(8)]
        try:
            post(hm, h, lambda l: hv[l[0]] if l[1] else -hv[l[0]])
        except Exception:
            pass
        ctx.count("history_encodings")
    sm = sat.SATManager()
    uv = [sm.newvar(VARS[k]) for k in range(nv)]
    _term_cache.clear()

    def lit(l):
        return uv[l[0]] if l[1] else -uv[l[0]]
    posted = []
    for c in case["cons"]:
        kind = c["k"] if c["k"] != "pb" else ("pb_decomposed" if c["decomp"] else "pb_plain")
        if c["k"] == "pb":
            ctx.count("op:" + c["op"])
        try:
            post(sm, c, lit)
            ctx.count("caller_lists_compared")
            posted.append(c)
            ctx.count("posted:" + kind)
            if c.get("huge"):
                ctx.count("posted:huge_coefficients_" + ("decomposed" if c["decomp"] else "plain"))
        except Exception as e:
            if c["k"] == "pb":
                ctx.count("refused")
                ctx.count("refused_op:" + c["op"])
            else:
                ctx.violation("caller_list_altered" if isinstance(e, CallerListAltered) else "post_raised", f"posting {c} raised {type(e).__name__}: {e}")
                return
    # ---- extract the CNF ---------------------------------------------------------------------------
    try:
        cnf = [[sm.ttable[l.v] if l.s else -sm.ttable[l.v] for l in cl] for cl in sm.clauses]
    except KeyError as e:
        ctx.violation("undeclared_variable", f"a generated clause uses a variable unknown to the manager: {e}")
        return
    has_empty = any(len(cl) == 0 for cl in cnf)
    ids = [sm.ttable[u.v] for u in uv]
    solver = _Solver(name="m22", bootstrap_with=[cl for cl in cnf if cl])
    sat_set = 0
    nontrivial = False
    for c in posted:
        if len(c.get("lits", c.get("terms", c.get("ante", [])))) >= 2:
            vals = {holds(c, dict(enumerate(bits))) for bits in itertools.product((0, 1), repeat=nv)}
            if len(vals) == 2:
                nontrivial = True
    ctx.nontrivial(nontrivial)
    bad = None
    for bits in itertools.product((0, 1), repeat=nv):
        asg = dict(enumerate(bits))
        want = all(holds(c, asg) for c in posted)
        got = (not has_empty) and solver.solve(assumptions=[i if b else -i for i, b in zip(ids, bits)])
        ctx.count("assignments_checked")
        sat_set += 1 if want else 0
        if want != got and bad is None:
            bad = (asg, want, got)
    solver.delete()
    if bad:
        asg, want, got = bad
        kind = "encoding_too_weak" if got and not want else "encoding_too_strong"
        ctx.violation(kind, f"assignment {asg} {'satisfies' if want else 'violates'} the posted constraints but "
                            f"{'extends' if got else 'does not extend'} to a model of the CNF; constraints={posted}")
    # ---- the real solve / value / evalexpr -----------------------------------------------------------
    ok, res = ctx.call(sm.solve)
    ctx.count("solve_checked")
    if not ok:
        ctx.violation("solve_raised", f"solve() raised {type(res).__name__}: {res}; constraints={posted}")
        return
    if bool(res) != (sat_set > 0):
        ctx.violation("solve_verdict", f"solve()={res} but {sat_set} of {2 ** nv} assignments satisfy the posted constraints; constraints={posted}")
        return
    if res:
        ctx.count("model_checked")
        vals = [sm.value(u) for u in uv]
        if any(v not in (0, 1) for v in vals):
            ctx.violation("model_value", f"value() returned {vals}")
            return
        asg = dict(enumerate(vals))
        for u, v in zip(uv, vals):
            if sm.value(-u) != 1 - v:
                ctx.violation("model_value", f"value(-x) inconsistent with value(x)")
        broken = [c for c in posted if not holds(c, asg)]
        if broken:
            ctx.violation("model_violates_constraint", f"the exposed model {asg} violates {broken}")
        for c in posted:
            if c["k"] == "pb":
                e = pb.Expr()
                for t in c["terms"]:
                    e = e + pb.Term(lit(t[1:]), t[0])
                want = sum(t[0] * lit_val(t[1:], asg) for t in c["terms"])
                got = sm.evalexpr(e)
                if got != want:
                    ctx.violation("evalexpr", f"evalexpr={got!r}, direct evaluation {want} under {asg} for terms {c['terms']}")
