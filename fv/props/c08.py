"""C08 - Rectilinear shape search admits exactly the k-box single-trunk orthogons.

Monitor: a recording subclass is swapped in for satmanager.SATManager (from the harness), so the
formula the real rect.solve / enforce_bb build is captured; ALL its models are enumerated with pysat
(blocking clauses on the per-box cell variables) and compared, as sets, with a brute-force enumeration
of k-tuples of grid rectangles (trunk + attached branches, disjoint) meeting the documented integer
objective.  The value returned by rect.solve is checked against the same enumeration."""
import contextlib
import io
import itertools
from fractions import Fraction as F

from fv.gen import geo

ID = "C08"
RULE = ("full rectangular grids up to 4x3 cells (4x4 / 5x3 thorough): uniform integer at origin, non-uniform, fractional total size, shifted origin, large/small scale, decimal; "
        "occupancies from {0,1,random}; k in {1,2,3}; bounds: none (whole model set), random, exact optimum, optimum+1; built directly and through Allocation -> get_alloc -> select_box; "
        "non-trivial = >=2 cells and k>=2; distinct = distinct (grid, occupancies, k, bound)")
ASSUMPTIONS = [
    "minimum-error mode (f=2, factor=10000), the mode the tool uses; the objective is the tool's documented integer objective int(f)*sum(floor(F*p*a)) - sum(floor(F*a))",
    "at least one cell has positive occupancy (the tool only optimises modules present in the allocation)",
    "cell areas x 10000 are >= 1 (the tool's fixed-point objective truncates areas to integers; at scales near 1e-3 every area truncates to 0 and the objective is void)",
    "Carrier() needs the Windows-only greedy DLL: the harness swaps a stub in for rect.GreedyManager (the greedy step is not part of the property)",
    "pysat is trusted as the model enumerator; model sets are capped at 60000 (never reached on the generated sizes)",
]
CASES = {"quick": 12000, "thorough": 150000}
MIN_CASES = {"quick": 2500, "thorough": 2500}
REQUIRED_CLASSES = ["int_origin", "nonuniform", "fractional_size", "shifted_origin", "scaled", "decimal"]
REQUIRED_COUNTERS = ["model_sets_compared", "models_enumerated", "reference_shapes_enumerated", "solve_return_checked", "bound:none", "bound:optimum", "bound:optimum+1",
                     "long_sessions_run", "cases_judged_after_a_long_session", "via:direct", "via:allocation", "via:select_box", "order:reversed", "order:snake", "order:shuffled", "order:column_major", "k:1", "k:2", "k:3"]
SOFT_DEADLINE = {"quick": 240, "thorough": 3300}

_rect = _sat = _Solver = _rio = None
_captured = []


def setup(ctx):
    global _rect, _sat, _Solver, _rio
    import tools.rect.rect as rect
    import tools.rect.satmanager as sat
    import tools.rect.rect_io as rio
    from pysat.solvers import Solver

    class StubGreedy:        # the DLL path in greedy_lib.py is a Windows path
        def find_best_box(self, *a, **k):
            raise RuntimeError("greedy step is not part of the monitored property")
    rect.GreedyManager = StubGreedy
    Orig = sat.SATManager

    class RecordingSATManager(Orig):
        def __init__(self):
            super().__init__()
            _captured.append(self)
    sat.SATManager = RecordingSATManager     # rect.solve does satmanager.SATManager()
    _rect, _sat, _Solver, _rio = rect, sat, Solver, rio


def generate(rng, tier, i):
    classes = ["int_origin", "nonuniform", "fractional_size", "shifted_origin", "scaled", "decimal"]
    cls = classes[i % len(classes)]
    big = tier == "thorough" and rng.random() < 0.3
    nx, ny = rng.randint(1, 4), rng.randint(1, 3)
    if big:
        nx, ny = rng.choice([(4, 4), (5, 3), (3, 4), (5, 2)])
    if rng.random() < 0.5:
        nx, ny = ny, nx
    if cls == "int_origin":
        xs, ys = [F(k) for k in range(nx + 1)], [F(k) for k in range(ny + 1)]
    elif cls == "nonuniform":
        xs, ys = geo.make_axis(rng, "int", nx, uniform=False), geo.make_axis(rng, "int", ny, uniform=False)
    elif cls == "fractional_size":
        fam = rng.choice(["half", "quarter"])
        xs, ys = geo.make_axis(rng, fam, nx, uniform=False), geo.make_axis(rng, fam, ny, uniform=False)
        if xs[-1].denominator == 1:
            xs[-1] += F(1, 2)
        if ys[-1].denominator == 1 and rng.random() < 0.5:
            ys[-1] += F(1, 2)
    elif cls == "shifted_origin":
        ox, oy = rng.choice([F(1), F(2), F(0), F(1, 2), F(1000000), F(123456)]), rng.choice([F(1), F(0), F(3), F(1000000)])
        if ox == 0 and oy == 0:
            ox = F(1)
        xs, ys = geo.make_axis(rng, "int", nx, origin=ox), geo.make_axis(rng, "int", ny, origin=oy)
    elif cls == "scaled":
        fam = rng.choice(["large_1e3", "odd_1234.567", "half"])
        xs, ys = geo.make_axis(rng, fam, nx), geo.make_axis(rng, fam, ny)
    else:
        fam = rng.choice(["dec_0.1", "third_0.3", "dec_0.05"])
        xs, ys = geo.make_axis(rng, fam, nx), geo.make_axis(rng, fam, ny)
    occ = []
    for _ in range(nx * ny):
        r = rng.random()
        occ.append(0.0 if r < 0.25 else 1.0 if r < 0.45 else round(rng.random(), rng.choice([1, 2, 3])))
    if not any(o > 0 for o in occ):
        occ[rng.randrange(len(occ))] = 1.0
    k = rng.choice([1, 2, 2, 3, 3])
    bound = rng.choice(["none", "none", "random", "optimum", "optimum+1"])
    via = rng.choice(["direct", "allocation", "select_box"])
    if via == "select_box" and rng.random() < 0.6:
        # negative / mixed-sign origins, fractional cells
        sx, sy = rng.choice([F(-21, 10), F(-7), F(-3, 2), F(-1, 10), F(-5)]), rng.choice([F(-7), F(-21, 10), F(0), F(-3, 10)])
        xs, ys = [x + sx for x in xs], [y + sy for y in ys]
    return {"session": 650 if i // 16 == 12 else 0,        # the 13th case of every shard is preceded by a long session (see check)
            "cls": cls, "xs": [geo.fl(x) for x in xs], "ys": [geo.fl(y) for y in ys], "occ": occ, "k": k, "bound": bound,
            "via": via, "bseed": rng.randrange(1 << 30), "order": rng.choice(["row_major", "row_major", "reversed", "column_major", "snake", "shuffled"])}


def directed():
    return [
        # found by the thorough tier: module whose fixed-point area is 0 (division by zero in the quality ratio)
        {"cls": "decimal", "xs": [0.0, 0.1, 0.2], "ys": [0.0, 0.1], "occ": [0.006, 0.0], "k": 2, "bound": "none", "via": "allocation", "bseed": 5},
        {"cls": "decimal", "xs": [0.0, 0.05], "ys": [0.0, 0.15, 0.4, 0.5], "occ": [0.0, 0.0, 0.01], "k": 3, "bound": "optimum", "via": "direct", "bseed": 6},
        {"cls": "fractional_size", "xs": [0.0, 1.0, 2.5], "ys": [0.0, 1.0, 2.5], "occ": [1.0, 0.5, 0.5, 1.0], "k": 2, "bound": "none", "via": "direct", "bseed": 1},
        {"cls": "shifted_origin", "xs": [1.0, 2.0, 3.0], "ys": [1.0, 2.0, 3.0], "occ": [1.0, 0.5, 0.5, 1.0], "k": 2, "bound": "none", "via": "direct", "bseed": 2},
        {"cls": "shifted_origin", "xs": [1.0, 2.0, 3.0], "ys": [1.0, 2.0, 3.0], "occ": [1.0, 0.0, 0.0, 1.0], "k": 2, "bound": "optimum", "via": "allocation", "bseed": 3},
    ]


# ---------------------------------------------------------------------------------------------
def cells_of(case):
    """cells in the order the tool sees them: [(x1,y1,x2,y2,p)], index = j*nx+i"""
    xs, ys = case["xs"], case["ys"]
    nx, ny = len(xs) - 1, len(ys) - 1
    out = []
    for j in range(ny):
        for i in range(nx):
            out.append((xs[i], ys[j], xs[i + 1], ys[j + 1], case["occ"][j * nx + i]))
    order = cell_order(case, nx, ny)
    return [out[o] for o in order], nx, ny


def cell_order(case, nx, ny):
    """the order in which the cells are listed in the input (an allocation lists its cells in no particular order):
    position n of the input holds the row-major cell order[n]"""
    import random
    kind = case.get("order") or "row_major"
    n = nx * ny
    if kind == "reversed":
        return list(range(n - 1, -1, -1))
    if kind == "column_major":
        return [j * nx + i for i in range(nx) for j in range(ny)]
    if kind == "snake":
        return [j * nx + (i if j % 2 == 0 else nx - 1 - i) for j in range(ny) for i in range(nx)]
    if kind == "shuffled":
        o = list(range(n))
        random.Random(case["bseed"]).shuffle(o)
        return o
    return list(range(n))


def reference_shapes(nx, ny, k):
    """all k-tuples (trunk, branch...) of index rectangles: pairwise disjoint, every branch abutting one trunk side within its extent.
    Index rectangle = (i0,i1,j0,j1) inclusive.  Returned as tuples of frozensets of cell indices."""
    rects = [(i0, i1, j0, j1) for i0 in range(nx) for i1 in range(i0, nx) for j0 in range(ny) for j1 in range(j0, ny)]

    def cellset(r):
        return frozenset(j * nx + i for i in range(r[0], r[1] + 1) for j in range(r[2], r[3] + 1))
    out = set()
    for t in rects:
        tc = cellset(t)
        att = []
        for b in rects:
            west = b[1] == t[0] - 1 and b[2] >= t[2] and b[3] <= t[3]
            east = b[0] == t[1] + 1 and b[2] >= t[2] and b[3] <= t[3]
            low = b[3] == t[2] - 1 and b[0] >= t[0] and b[1] <= t[1]
            high = b[2] == t[3] + 1 and b[0] >= t[0] and b[1] <= t[1]
            if west or east or low or high:
                att.append(cellset(b))
        for combo in itertools.product(att, repeat=k - 1):
            if all(a.isdisjoint(b) for a, b in itertools.combinations(combo, 2)):
                out.add((tc,) + combo)
    return out


def objective(cells, sel):
    fac = 10000
    s = sum(int(fac * cells[b][4] * (cells[b][2] - cells[b][0]) * (cells[b][3] - cells[b][1])) for b in sel)
    r = sum(int(fac * (cells[b][2] - cells[b][0]) * (cells[b][3] - cells[b][1])) for b in sel)
    return 2 * s - r


def enumerate_models(sm, nb, k, cap=60000):
    cnf = [[sm.ttable[l.v] if l.s else -sm.ttable[l.v] for l in cl] for cl in sm.clauses]
    if any(len(c) == 0 for c in cnf):
        return set(), False
    proj = {(i, b): sm.ttable[f"b{i}_{b}"] for i in range(k) for b in range(nb)}
    s = _Solver(name="m22", bootstrap_with=cnf)
    out = set()
    while s.solve():
        model = set(v for v in s.get_model() if v > 0)
        shape = tuple(frozenset(b for b in range(nb) if proj[(i, b)] in model) for i in range(k))
        out.add(shape)
        s.add_clause([-proj[key] if proj[key] in model else proj[key] for key in proj])
        if len(out) > cap:
            s.delete()
            return out, True
    s.delete()
    return out, False


def prepare(case):
    """builds the Carrier the way main() does (direct cells, or Allocation -> get_alloc -> select_box)"""
    rect = _rect
    cells, nx, ny = cells_of(case)
    carrier = rect.Carrier()
    carrier.factor = 10000
    if case["via"] == "allocation":
        # a cell the module does not occupy usually has NO entry at all (every second empty cell here), not an explicit 0
        tree = [[[(x1 + x2) / 2, (y1 + y2) / 2, x2 - x1, y2 - y1], ({"M": p} if p > 0 or n_ % 2 else {})] for n_, (x1, y1, x2, y2, p) in enumerate(cells)]
        from frame.geometry.geometry import Rectangle
        Rectangle.undefine_epsilon()
        ifile = _rio.get_alloc(tree)
        carrier.input_problem, carrier.selbox = _rio.select_box("M", ifile)
    elif case["via"] == "select_box":
        # the parsed-allocation structure handed to select_box directly: reaches origins an Allocation cannot have (negative coordinates)
        rects = [{f"b{n}": [{"dim": [(x1 + x2) / 2, (y1 + y2) / 2, x2 - x1, y2 - y1]}, {"mod": ([{"M": p}] if p > 0 or n % 2 else [])}]} for n, (x1, y1, x2, y2, p) in enumerate(cells)]
        ifile = {"Width": case["xs"][-1] - case["xs"][0], "Height": case["ys"][-1] - case["ys"][0], "Rectangles": rects}
        carrier.input_problem, carrier.selbox = _rio.select_box("M", ifile)
    else:
        ifile = {"Width": case["xs"][-1] - case["xs"][0], "Height": case["ys"][-1] - case["ys"][0]}
        carrier.input_problem, carrier.selbox = list(cells), "M"
    rect.definecoords(carrier)
    carrier.theoreticalBestArea = 0
    for b in carrier.blocks:
        carrier.theoreticalBestArea += rect.area(carrier, b, True)
    return carrier, ifile


def run_solve(carrier, ifile, k, bound_value):
    _captured.clear()
    with contextlib.redirect_stdout(io.StringIO()):
        res = _rect.solve(carrier, ifile, 2.0, (bound_value, 1), k)
    return res, (_captured[-1] if _captured else None)


_after_session = [False]


def check(case, ctx):
    import random
    if case.get("session"):
        # a long session of the tool: hundreds of encodings of other problems first (process-wide stores that are trimmed, capped or
        # restarted after many entries); every later case of this shard runs after it
        from fv import histops as ho
        ho.run_op({"k": "pb_many", "count": case["session"], "nv": 14, "seed": case["bseed"]}, 300.0)
        _after_session[0] = True
        ctx.count("long_sessions_run")
    if _after_session[0]:
        ctx.count("cases_judged_after_a_long_session")
    cells, nx, ny = cells_of(case)
    nb, k = nx * ny, case["k"]
    ctx.count("via:" + case["via"])
    ctx.count(f"k:{k}")
    ctx.nontrivial(nb >= 2 and k >= 2)
    what = f"grid xs={case['xs']} ys={case['ys']} occ={case['occ']} k={k} via={case['via']} order={case.get('order')}/{case['bseed']}"
    ok, prep = ctx.call(prepare, case)
    if not ok:
        ctx.violation("prepare_raised", f"building the problem raised {type(prep).__name__}: {str(prep)[:200]} :: {what}")
        return
    carrier, ifile = prep
    tool_cells = list(carrier.input_problem)
    # the cells as the tool sees them must be the generated grid, in the same order (checks get_alloc / select_box)
    if len(tool_cells) != nb or any(abs(a - b) > 1e-9 * max(1.0, abs(b)) for s_, c_ in zip(tool_cells, cells) for a, b in zip(s_, c_)):
        ctx.violation("grid_misread", f"cells seen by the tool {tool_cells} differ from the grid {cells}")
        return
    if tool_cells != cells:
        ctx.count("grid_coordinates_perturbed_by_rounding")
    order = cell_order(case, nx, ny)
    pos = {o: n_ for n_, o in enumerate(order)}         # row-major cell -> position in the input
    ctx.count("order:" + (case.get("order") or "row_major"))
    ref_all = {tuple(frozenset(pos[c] for c in box) for box in sh) for sh in reference_shapes(nx, ny, k)}
    # objective on the cells exactly as the tool holds them (its fixed-point areas are floor(10000 * float area))
    objs = {sh: objective(tool_cells, frozenset().union(*sh)) for sh in ref_all}
    opt = max(objs.values()) if objs else 0
    if case["bound"] == "none" or not objs:
        bound = -10 ** 9
    elif case["bound"] == "optimum":
        bound = opt
    elif case["bound"] == "optimum+1":
        bound = opt + 1
    else:
        bound = random.Random(case["bseed"]).randint(min(objs.values()) - 1, opt + 1)
    ctx.count("bound:" + case["bound"])
    what += f" bound={bound}"
    ref = {sh for sh, o in objs.items() if o >= bound}
    ctx.count("reference_shapes_enumerated", len(ref_all))
    ok, res = ctx.call(run_solve, carrier, ifile, k, bound)
    if not ok:
        ctx.violation("solve_raised", f"rect.solve raised {type(res).__name__}: {str(res)[:200]} :: {what}")
        return
    (ret, sm) = res
    if sm is None:
        ctx.violation("no_manager_captured", "rect.solve did not build a SATManager")
        return
    models, capped = enumerate_models(sm, nb, k)
    ctx.count("models_enumerated", len(models))
    if capped:
        ctx.gray("model_cap_reached")
        return
    ctx.count("model_sets_compared")
    spurious = models - ref
    missing = ref - models
    if spurious:
        ex = next(iter(spurious))
        why = "does not meet the bound" if ex in ref_all else "not a k-box single-trunk orthogon"
        ctx.violation("spurious_model", f"{len(spurious)} model(s) of the formula are not admissible shapes, e.g. boxes {[sorted(b) for b in ex]} ({why}) :: {what}")
    if missing:
        ex = next(iter(missing))
        ctx.violation("missing_shape", f"{len(missing)} admissible shape(s) have no model, e.g. boxes {[sorted(b) for b in ex]} :: {what}")
    # ---- return value ----------------------------------------------------------------------------------
    ctx.count("solve_return_checked")
    (last, rects, quality) = ret
    if not ref:
        if rects:
            ctx.violation("returned_shape_when_none", f"solve returned {rects} but no shape meets the bound :: {what}")
        return
    if not rects:
        ctx.violation("insat_when_shape_exists", f"solve reported no solution but {len(ref)} shapes meet the bound :: {what}")
        return
    got = []
    for (x0, y0, x1, y1) in rects:
        tl = 1e-9 * max(1.0, abs(x1), abs(y1))
        got.append(frozenset(n for n, c in enumerate(tool_cells) if c[0] >= x0 - tl and c[2] <= x1 + tl and c[1] >= y0 - tl and c[3] <= y1 + tl))
    if tuple(got) not in ref:
        ctx.violation("returned_not_admissible", f"solve returned boxes {rects} = cells {[sorted(g) for g in got]}, not an admissible shape meeting the bound :: {what}")
    elif last[0] != objs[tuple(got)] + 1:
        ctx.violation("returned_cost", f"solve reports cost {last[0] - 1}, the returned shape has objective {objs[tuple(got)]} :: {what}")
