"""C09 - Legaliser constraint system admits exactly the legal floorplans.

Monitor: the real netlist_to_utils + Model(...) build the constraint system; the harness assigns
configurations with the repository's own ExpressionTree.assign and evaluates EVERY Equation object of
the model (global groups and each module's own constraints) with the repository's Equation.
is_equation_met().  Configurations: the input one (legal by construction), legal variations, and one
illegal variation per legality clause by a clear margin; the group of the unmet equations must match
the clause that was broken."""
import contextlib
import io
import os
import shutil

ID = "C09"
RULE = ("netlists of 2-6 single-trunk-orthogon modules packed legally in a die (slots with clearance): soft (0-2 branches per side), hard with 1 or several rectangles, fixed; integer and decimal "
        "coordinates, int and float YAML numbers; ratio limit in {1.5,2,3}; unit sizes 0.5..25 (dies 2..600); per model: the input configuration, legal variations (translation into free space, "
        "branch slid along its side, branch depth reduced) and one illegal variation per clause (outside die, ratio, area, gap, overhang, same-side overlap, same-side order swapped, inter-module overlap, hard reshaped, "
        "hard branch offset, fixed moved); non-trivial = every model with >=2 modules; distinct = distinct (netlist, die, limit)")
ASSUMPTIONS = [
    "the process-wide slack is annealed to its documented end value 0 before evaluation (is_equation_met keeps its own 1e-6 absolute slack)",
    "groups 'radius' (trust-region caps relative to the starting point) and 'Exact Value' (the time variable) are not legality clauses and are excluded",
    "illegal variations break exactly one clause by >= 5% of the rectangle size; overlaps are >= 0.5 unit in both axes with unit >= 0.5 (far above the smoothing term tau = 0.01*min(die)/modules)",
    "rectangle sides are >= 0.1 (the model's variable lower bound)",
]
CASES = {"quick": 400, "thorough": 20000}
MIN_CASES = {"quick": 100, "thorough": 800}
REQUIRED_COUNTERS = ["models_built", "equations_evaluated", "config:illegal_branch_into_trunk", "config:input", "config:legal_translate", "config:legal_slide", "config:legal_shrink_branch",
                     "config:illegal_outside", "config:illegal_ratio", "config:illegal_area", "config:illegal_gap", "config:illegal_overhang", "config:illegal_same_side_overlap", "config:illegal_swapped_order",
                     "config:illegal_inter_overlap", "config:illegal_inter_overlap_shallow", "config:illegal_hard_reshaped", "config:illegal_hard_branch_offset", "config:illegal_fixed_moved",
                     "kind:soft", "kind:hard_multi", "kind:hard_single", "kind:fixed"]
SOFT_DEADLINE = {"quick": 240, "thorough": 3300}
LEGALITY_GROUPS = {"Area", "Inter", "Fix", "Bounds", "Shapes", "Attach", "Intra", "Rid"}

_lf = _et = None


def setup(ctx):
    global _lf, _et
    import tools.legalfloor.legalfloor as lf
    import tools.legalfloor.expression_tree as et
    _lf, _et = lf, et


# ---------------------------------------------------------------------------------------------
# generator: legal floorplans by construction
# ---------------------------------------------------------------------------------------------
def gen_module(rng, kind, ox, oy, u, limit):
    """module in the slot whose lower-left usable corner is (ox, oy); usable size 4u x 4u.
    returns rects as [cx, cy, w, h, role] with trunk first"""
    sizes = [0.75, 0.9, 1.0] if limit < 2 else [0.6, 0.75, 1.0]
    tx0, ty0, tw, th = ox + u, oy + u, 2 * u, 2 * u
    rects = [[tx0 + tw / 2, ty0 + th / 2, tw, th, "T"]]
    max_b = 0 if kind in ("hard_single",) else 2
    if kind == "soft" and rng.random() < 0.25:
        max_b = 0
    for side in "NSEW":
        nb = rng.randint(0, max_b)
        if nb == 0:
            continue
        pos = 0.0      # along the side, from the low end
        for k in range(nb):
            a = rng.choice(sizes) * u                 # extent along the side
            b = rng.choice(sizes) * u                 # depth away from the trunk
            lo = pos + (rng.choice([0.0, 0.0, 0.1]) * u if k or rng.random() < 0.5 else 0.0)
            if nb == 1 and kind == "hard_multi" and rng.random() < 0.5:
                lo = u - a / 2          # centred on the trunk axis: its rigid offset along the side is exactly 0
            if lo + a > 2 * u + 1e-12:
                break
            if side == "N":
                rects.append([tx0 + lo + a / 2, ty0 + th + b / 2, a, b, "N"])
            elif side == "S":
                rects.append([tx0 + lo + a / 2, ty0 - b / 2, a, b, "S"])
            elif side == "E":
                rects.append([tx0 + tw + b / 2, ty0 + lo + a / 2, b, a, "E"])
            else:
                rects.append([tx0 - b / 2, ty0 + lo + a / 2, b, a, "W"])
            pos = lo + a
    return rects


def generate(rng, tier, i):
    u = rng.choice([0.5, 1.0, 1.0, 2.0, 2.5, 10.0, 25.0, 0.6])
    limit = rng.choice([1.5, 2, 3])
    cols, rows = rng.choice([(2, 1), (2, 2), (3, 2), (3, 1), (2, 3), (3, 3)])
    pitch = 4.6 * u
    W, H = round(cols * pitch + 0.6 * u, 6), round(rows * pitch + 0.6 * u, 6)
    slots = [(c, r) for c in range(cols) for r in range(rows)]
    rng.shuffle(slots)
    nmod = rng.randint(2, max(2, min(6, len(slots) - 1)))
    free = slots[nmod:]
    mods = []
    kinds = ["soft", "soft", "hard_multi", "hard_single", "fixed"]
    for k in range(nmod):
        kind = kinds[k] if k < 3 and i % 3 == 0 else rng.choice(kinds)
        c, r = slots[k]
        ox, oy = 0.6 * u + c * pitch, 0.6 * u + r * pitch
        rects = gen_module(rng, kind, ox, oy, u, limit)
        rects = [[round(v, 9) for v in q[:4]] + [q[4]] for q in rects]
        mods.append({"name": f"M{k}", "kind": kind, "slot": [c, r], "rects": rects})
    as_int = rng.random() < 0.4 and float(u).is_integer()
    nets = []
    for _ in range(rng.randint(1, 4)):
        e = rng.sample([m["name"] for m in mods], rng.randint(2, min(3, nmod)))
        if rng.random() < 0.5:
            e.append(rng.choice([2, 0.5, 3.5]))
        nets.append(e)
    return {"cls": "int_yaml" if as_int else "float_yaml", "u": u, "limit": limit, "W": W, "H": H, "pitch": pitch, "mods": mods,
            "free": [list(s) for s in free], "nets": nets, "as_int": as_int, "vseed": rng.randrange(1 << 30)}


def directed():
    # hard module with two rectangles (float coordinates): netlist_to_utils stored absolute branch coordinates that Model.fix adds to the trunk position
    return [{"cls": "float_yaml", "u": 1.0, "limit": 2, "W": 9.8, "H": 5.2, "pitch": 4.6,
             "mods": [{"name": "M0", "kind": "hard_multi", "slot": [0, 0], "rects": [[2.6, 2.6, 2.0, 2.0, "T"], [2.1, 4.1, 1.0, 1.0, "N"]]},
                      {"name": "M1", "kind": "soft", "slot": [1, 0], "rects": [[7.2, 2.6, 2.0, 2.0, "T"]]}],
             "free": [], "nets": [["M0", "M1"]], "as_int": False, "vseed": 7}]


def netlist_doc(case):
    mods = {}
    for m in case["mods"]:
        rl = []
        for q in m["rects"]:
            vals = [int(v) if case["as_int"] and float(v).is_integer() else float(v) for v in q[:4]]
            rl.append(vals)
        if m["kind"] == "soft":
            area = sum(q[2] * q[3] for q in m["rects"]) * 0.6
            mods[m["name"]] = {"area": float(f"{area:.9g}"), "rectangles": rl}
        elif m["kind"] == "fixed":
            mods[m["name"]] = {"fixed": True, "rectangles": rl}
        else:
            mods[m["name"]] = {"hard": True, "rectangles": rl}
    return {"Modules": mods, "Nets": case["nets"]}


# ---------------------------------------------------------------------------------------------
def build(case):
    from frame.geometry.geometry import Rectangle
    from frame.netlist.netlist import Netlist
    Rectangle.undefine_epsilon()
    nl = Netlist(netlist_doc(case))
    ml, al, xl, yl, wl, hl, hyper, og_names = _lf.netlist_to_utils(nl)
    with contextlib.redirect_stdout(io.StringIO()):
        m = _lf.Model(ml, al, xl, yl, wl, hl, case["W"], case["H"], hyper, case["limit"], og_names, 0.9, 0.3, 1)
    return nl, m


def cleanup(m):
    for g in {id(m.gekko.gekko): m.gekko.gekko}.values():
        p = getattr(g, "_path", None)
        if p and os.path.isdir(p) and os.path.basename(p).startswith("tmp"):
            shutil.rmtree(p, ignore_errors=True)


def all_equations(m):
    out = []
    for group, eqs in m.gekko.constraints.items():
        for e in eqs:
            out.append((group, e))
    for macro in m.gekko.macros:
        for group, e in macro.get_constraints(m.gekko):
            out.append((group, e))
    return out


def assign(m, index, config):
    """config: {(mod name, rect idx in the generated order): (x,y,w,h)}"""
    for key, (x, y, w, h) in config.items():
        mi, j = index[key]
        m.x[mi][j].assign(float(x))
        m.y[mi][j].assign(float(y))
        m.w[mi][j].assign(float(w))
        m.h[mi][j].assign(float(h))


def unmet_groups(m):
    bad = {}
    n = 0
    for group, e in all_equations(m):
        if group not in LEGALITY_GROUPS:
            continue
        n += 1
        try:
            ok = e.is_equation_met()
        except ZeroDivisionError:
            ok = False
        if not ok:
            bad.setdefault(group, []).append(f"{e.name}: {e.lhs.evaluate():.6g} {e.cmp.name} {e.rhs.evaluate():.6g}")
    return bad, n


def make_index(case, m):
    """map (module name, generated rect index) -> (model module index, model rect index) by matching start values"""
    index = {}
    for mi, mod in enumerate(case["mods"]):
        if m.og_names[mi] != mod["name"]:
            return None
        used = set()
        for gi, q in enumerate(mod["rects"]):
            found = None
            for j in range(len(m.x[mi])):
                if j in used:
                    continue
                if (abs(m.x[mi][j].evaluate() - q[0]) < 1e-9 and abs(m.y[mi][j].evaluate() - q[1]) < 1e-9 and
                        abs(m.w[mi][j].evaluate() - q[2]) < 1e-9 and abs(m.h[mi][j].evaluate() - q[3]) < 1e-9):
                    found = j
                    break
            if found is None:
                return None
            used.add(found)
            index[(mod["name"], gi)] = (mi, found)
        if len(used) != len(m.x[mi]):
            return None
    return index


def base_config(case):
    return {(mod["name"], gi): tuple(q[:4]) for mod in case["mods"] for gi, q in enumerate(mod["rects"])}


def translate(cfg, name, dx, dy):
    return {k: ((v[0] + dx, v[1] + dy, v[2], v[3]) if k[0] == name else v) for k, v in cfg.items()}


def variations(case, rng):
    """yields (label, legal?, expected groups, config)"""
    u, pitch = case["u"], case["pitch"]
    base = base_config(case)
    mods = case["mods"]
    by_kind = {}
    for mod in mods:
        by_kind.setdefault(mod["kind"], []).append(mod)
    movable = [m_ for m_ in mods if m_["kind"] != "fixed"]
    out = [("input", True, set(), base)]
    # legal: translate a movable module into a free slot
    if case["free"] and movable:
        mod = rng.choice(movable)
        c, r = rng.choice(case["free"])
        dx, dy = (c - mod["slot"][0]) * pitch, (r - mod["slot"][1]) * pitch
        out.append(("legal_translate", True, set(), translate(base, mod["name"], dx, dy)))
    softs = by_kind.get("soft", [])
    soft_b = [m_ for m_ in softs if len(m_["rects"]) > 1]
    if soft_b:
        mod = rng.choice(soft_b)
        gi = rng.randrange(1, len(mod["rects"]))
        x, y, w, h, role = mod["rects"][gi]
        # legal: reduce the branch depth by 10% keeping it attached (area has 40% slack, ratio stays below the limit for sizes >= 0.6u when limit >= 2; checked)
        if role in "NS":
            h2 = h * 0.9
            y2 = y - (h - h2) / 2 if role == "N" else y + (h - h2) / 2
            cand = (x, y2, w, h2)
        else:
            w2 = w * 0.9
            x2 = x - (w - w2) / 2 if role == "E" else x + (w - w2) / 2
            cand = (x2, y, w2, h)
        if max(cand[2] / cand[3], cand[3] / cand[2]) <= case["limit"] * 0.98:
            cfg = dict(base)
            cfg[(mod["name"], gi)] = cand
            out.append(("legal_shrink_branch", True, set(), cfg))
        # legal slide: only when the branch is alone on its side and has room
        same = [k for k, q in enumerate(mod["rects"]) if q[4] == role]
        t = mod["rects"][0]
        if len(same) == 1:
            if role in "NS":
                lo, hi = t[0] - t[2] / 2 + w / 2, t[0] + t[2] / 2 - w / 2
                nx = lo + (hi - lo) * rng.random()
                cfg = dict(base)
                cfg[(mod["name"], gi)] = (nx, y, w, h)
            else:
                lo, hi = t[1] - t[3] / 2 + h / 2, t[1] + t[3] / 2 - h / 2
                ny = lo + (hi - lo) * rng.random()
                cfg = dict(base)
                cfg[(mod["name"], gi)] = (x, ny, w, h)
            out.append(("legal_slide", True, set(), cfg))
        # illegal: gap
        d = 0.2 * (h if role in "NS" else w)
        sg = {"N": (0, 1), "S": (0, -1), "E": (1, 0), "W": (-1, 0)}[role]
        cfg = dict(base)
        cfg[(mod["name"], gi)] = (x + sg[0] * d, y + sg[1] * d, w, h)
        out.append(("illegal_gap", False, {"Attach"}, cfg))
        # illegal: the branch pushed the other way, 30% of its depth INTO the trunk (attachment is an equality, not a bound)
        d = 0.3 * (h if role in "NS" else w)
        cfg = dict(base)
        cfg[(mod["name"], gi)] = (x - sg[0] * d, y - sg[1] * d, w, h)
        out.append(("illegal_branch_into_trunk", False, {"Attach", "Intra"}, cfg))
        # illegal: overhang beyond the trunk's extent (still abutting)
        cfg = dict(base)
        if role in "NS":
            cfg[(mod["name"], gi)] = (t[0] + t[2] / 2 - w / 2 + 0.3 * w, y, w, h)
        else:
            cfg[(mod["name"], gi)] = (x, t[1] + t[3] / 2 - h / 2 + 0.3 * h, w, h)
        # sliding may also cross a same-side neighbour: allow Intra as a companion
        out.append(("illegal_overhang", False, {"Attach", "Intra"}, cfg))
        # illegal: ratio (make the branch thin: depth = extent / (limit*1.3)); area keeps its slack
        cfg = dict(base)
        if role in "NS":
            h2 = w / (case["limit"] * 1.3)
            y2 = y - (h - h2) / 2 if role == "N" else y + (h - h2) / 2
            cfg[(mod["name"], gi)] = (x, y2, w, h2)
        else:
            w2 = h / (case["limit"] * 1.3)
            x2 = x - (w - w2) / 2 if role == "E" else x + (w - w2) / 2
            cfg[(mod["name"], gi)] = (x2, y, w2, h)
        out.append(("illegal_ratio", False, {"Shapes"}, cfg))
        # illegal: two branches on the same side overlap
        for role2 in "NSEW":
            same = [k for k, q in enumerate(mod["rects"]) if q[4] == role2]
            if len(same) == 2:
                a, b = mod["rects"][same[0]], mod["rects"][same[1]]
                cfg = dict(base)
                if role2 in "NS":
                    cfg[(mod["name"], same[1])] = (a[0] + a[2] / 2 + b[2] / 2 - 0.3 * min(a[2], b[2]), b[1], b[2], b[3])
                else:
                    cfg[(mod["name"], same[1])] = (b[0], a[1] + a[3] / 2 + b[3] / 2 - 0.3 * min(a[3], b[3]), b[2], b[3])
                out.append(("illegal_same_side_overlap", False, {"Intra"}, cfg))
                # the two branches exchange their places along the side (no overlap, still attached and inside the extent): only the original order is broken
                cfg = dict(base)
                if role2 in "NS":
                    lo = min(a[0] - a[2] / 2, b[0] - b[2] / 2)
                    hi = max(a[0] + a[2] / 2, b[0] + b[2] / 2)
                    first, second = (a, b) if a[0] < b[0] else (b, a)
                    ia, ib = (same[0], same[1]) if a[0] < b[0] else (same[1], same[0])
                    cfg[(mod["name"], ib)] = (lo + second[2] / 2, second[1], second[2], second[3])
                    cfg[(mod["name"], ia)] = (hi - first[2] / 2, first[1], first[2], first[3])
                else:
                    lo = min(a[1] - a[3] / 2, b[1] - b[3] / 2)
                    hi = max(a[1] + a[3] / 2, b[1] + b[3] / 2)
                    first, second = (a, b) if a[1] < b[1] else (b, a)
                    ia, ib = (same[0], same[1]) if a[1] < b[1] else (same[1], same[0])
                    cfg[(mod["name"], ib)] = (second[0], lo + second[3] / 2, second[2], second[3])
                    cfg[(mod["name"], ia)] = (first[0], hi - first[3] / 2, first[2], first[3])
                out.append(("illegal_swapped_order", False, {"Intra"}, cfg))
                break
    if softs:
        mod = rng.choice(softs)
        t = mod["rects"][0]
        s = 0.7
        cfg = dict(base)
        for gi, q in enumerate(mod["rects"]):
            cfg[(mod["name"], gi)] = (t[0] + (q[0] - t[0]) * s, t[1] + (q[1] - t[1]) * s, q[2] * s, q[3] * s)
        if min(min(v[2], v[3]) for k, v in cfg.items() if k[0] == mod["name"]) >= 0.1:
            out.append(("illegal_area", False, {"Area"}, cfg))
    if movable:
        # illegal: outside the die (module in a border slot pushed out through the left or bottom border)
        mod = rng.choice(movable)
        minx = min(q[0] - q[2] / 2 for q in mod["rects"])
        miny = min(q[1] - q[3] / 2 for q in mod["rects"])
        if mod["slot"][0] == 0:
            out.append(("illegal_outside", False, {"Bounds"}, translate(base, mod["name"], -(minx + 0.3 * u), 0)))
        elif mod["slot"][1] == 0:
            out.append(("illegal_outside", False, {"Bounds"}, translate(base, mod["name"], 0, -(miny + 0.3 * u))))
        # illegal: inter-module overlap (move a movable module onto another one's trunk: half-unit overlap at least in both axes)
        others = [o for o in mods if o["name"] != mod["name"]]
        if others:
            o = rng.choice(others)
            dx = (o["slot"][0] - mod["slot"][0]) * pitch + 0.5 * u
            dy = (o["slot"][1] - mod["slot"][1]) * pitch + 0.5 * u
            out.append(("illegal_inter_overlap", False, {"Inter", "Bounds"}, translate(base, mod["name"], dx, dy)))
            # shallow on one axis (0.2 unit), deep on the other (trunks aligned): still far above the smoothing term
            t_o, t_m = o["rects"][0], mod["rects"][0]
            if rng.random() < 0.5:
                dx2 = (t_o[0] - t_o[2] / 2 - t_m[2] / 2 + 0.2 * u) - t_m[0]
                dy2 = t_o[1] - t_m[1]
            else:
                dx2 = t_o[0] - t_m[0]
                dy2 = (t_o[1] - t_o[3] / 2 - t_m[3] / 2 + 0.2 * u) - t_m[1]
            out.append(("illegal_inter_overlap_shallow", False, {"Inter", "Bounds"}, translate(base, mod["name"], dx2, dy2)))
    hards = by_kind.get("hard_multi", []) + by_kind.get("hard_single", [])
    if hards:
        mod = rng.choice(hards)
        cfg = dict(base)
        q = mod["rects"][0]
        # enlarge the trunk by 8% in width about its centre: branches on E/W would detach, so only for N/S-only or single
        if all(r_[4] in "TNS" for r_ in mod["rects"]):
            cfg[(mod["name"], 0)] = (q[0], q[1], q[2] * 1.08, q[3])
            out.append(("illegal_hard_reshaped", False, {"Fix"}, cfg))
        elif all(r_[4] in "TEW" for r_ in mod["rects"]):
            cfg[(mod["name"], 0)] = (q[0], q[1], q[2], q[3] * 1.08)
            out.append(("illegal_hard_reshaped", False, {"Fix"}, cfg))
        multi = [h_ for h_ in by_kind.get("hard_multi", []) if len(h_["rects"]) > 1]
        if multi:
            mod = rng.choice(multi)
            gi = rng.randrange(1, len(mod["rects"]))
            x, y, w, h, role = mod["rects"][gi]
            t = mod["rects"][0]
            same = [k for k, q2 in enumerate(mod["rects"]) if q2[4] == role]
            if len(same) == 1:
                # slide the branch along its side, staying inside the trunk's extent: only the rigid offset is broken
                cfg = dict(base)
                if role in "NS":
                    lo, hi = t[0] - t[2] / 2 + w / 2, t[0] + t[2] / 2 - w / 2
                    nx = lo if abs(x - lo) > abs(x - hi) else hi
                    if abs(nx - x) >= 0.05 * w:
                        cfg[(mod["name"], gi)] = (nx, y, w, h)
                        out.append(("illegal_hard_branch_offset", False, {"Fix"}, cfg))
                else:
                    lo, hi = t[1] - t[3] / 2 + h / 2, t[1] + t[3] / 2 - h / 2
                    ny = lo if abs(y - lo) > abs(y - hi) else hi
                    if abs(ny - y) >= 0.05 * h:
                        cfg[(mod["name"], gi)] = (x, ny, w, h)
                        out.append(("illegal_hard_branch_offset", False, {"Fix"}, cfg))
    fixeds = by_kind.get("fixed", [])
    if fixeds and case["free"]:
        mod = rng.choice(fixeds)
        c, r = rng.choice(case["free"])
        dx, dy = (c - mod["slot"][0]) * pitch, (r - mod["slot"][1]) * pitch
        out.append(("illegal_fixed_moved", False, {"Fix"}, translate(base, mod["name"], dx, dy)))
    return out


def check(case, ctx):
    import random
    ok, res = ctx.call(build, case)
    if not ok:
        ctx.violation("build_raised", f"building the model raised {type(res).__name__}: {str(res)[:300]} :: {netlist_doc(case)}")
        return
    nl, m = res
    try:
        ctx.count("models_built")
        for mod in case["mods"]:
            ctx.count("kind:" + ("hard_multi" if mod["kind"] == "hard_multi" and len(mod["rects"]) > 1 else "hard_single" if mod["kind"].startswith("hard") else mod["kind"]))
        ctx.nontrivial(len(case["mods"]) >= 2)
        index = make_index(case, m)
        if index is None:
            ctx.violation("variables_do_not_match_input", f"the model's variables do not start at the input rectangles :: {netlist_doc(case)}")
            return
        # anneal the process-wide slack to its documented end value
        _et.set_epsilon(_et.ExpressionTree(m.gekko.gekko, 0.0))
        rng = random.Random(case["vseed"])
        for label, legal, groups, cfg in variations(case, rng):
            assign(m, index, cfg)
            bad, n = unmet_groups(m)
            ctx.count("config:" + label)
            ctx.count("equations_evaluated", n)
            desc = f"{label} :: limit={case['limit']} die={case['W']}x{case['H']} netlist={netlist_doc(case)} config={ {k[0] + '#' + str(k[1]): v for k, v in cfg.items() if base_config(case)[k] != v} }"
            if legal and bad:
                ctx.violation("legal_rejected:" + label, f"legal configuration violates {bad} :: {desc}")
            elif not legal and not bad:
                ctx.violation("illegal_admitted:" + label, f"illegal configuration satisfies every equation :: {desc}")
            elif not legal and not (set(bad) <= groups):
                ctx.violation("wrong_clause:" + label, f"expected only {sorted(groups)} to be unmet, got {bad} :: {desc}")
    finally:
        cleanup(m)
