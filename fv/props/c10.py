"""C10 - Global floorplanning returns a feasible allocation and rigid hard modules.

Monitor: an icontract postcondition attached from the harness to the real extract_solution (so every
optimisation iteration is judged, not only the value glbfloor finally returns) plus a check of the
final return value: cell geometry in exact arithmetic, ratios / cell sums with the solver's tolerance
class, centres in the die, fixed modules untouched and owning their cells, movable hard modules moved
rigidly (mirrored only if flippable).  Uses the local GEKKO/IPOPT binary (works offline)."""
import contextlib
import io
import math
import os
import shutil
from fractions import Fraction as F

from fv import dieutil
from fv.exact import XR
from fv.gen import dies as gd
from fv.gen import geo

ID = "C10"
RULE = ("dies of at most 4x4 lattice units (int / half / decimal 0.1 steps, 0-2 blockages or fixed regions), refined by initial_grid or split_refinable_regions to 2-16 cells; netlists of 2-6 modules "
        "mixing soft (centres given), hard (1-3 rectangles), flippable hard, fixed; alpha in {0,.3,.7,1}, threshold in {.45,.7,.9,.95,.99}, max_iter 1-3; "
        "non-trivial = the optimiser returned and the allocation has >=2 cells; distinct = distinct instance")
ASSUMPTIONS = [
    "only runs in which the optimiser returns are judged (GEKKO's 'solution not found' exception = did not return, counted as no_return); the non-linear solver is trusted within its tolerance",
    "ratios and cell sums judged with 1e-4, centres and rigid offsets with 1e-6 x die size, cell geometry with 1e-9 relative",
    "total module area is kept below ~60% of the refinable area so that instances are usually feasible",
]
CASES = {"quick": 600, "thorough": 20000}
MIN_CASES = {"quick": 150, "thorough": 1500}
MIN_COUNTERS = {"quick": {"returned": 80}, "thorough": {"returned": 600}}
REQUIRED_CLASSES = ["clash", "synthetic_mirror"]
REQUIRED_COUNTERS = ["synthetic_extractions_judged", "returned", "iterations_judged_by_contract", "final_returns_judged", "cells_checked", "hard_modules_checked", "fixed_modules_checked", "staircase_hard_modules_checked", "synthetic_targets_at_the_left_or_bottom_border", "synthetic_shared_cells:threshold_below_half", "synthetic_shared_cells:threshold_above_half"]
SOFT_DEADLINE = {"quick": 240, "thorough": 3300}
WATCHDOG = {"quick": 900, "thorough": 7200}

_opt = None
_iters = []


class PostBroken(Exception):
    pass


def _record_iteration(model, die, cells, threshold, result):
    d, alloc, disp = result
    _iters.append(snapshot_result(d, alloc))
    return True


def setup(ctx):
    global _opt
    import tools.glbfloor.optimization as opt
    try:
        import icontract
        opt.extract_solution = icontract.ensure(_record_iteration, error=PostBroken)(opt.extract_solution)
        ctx.extra["contract_library"] = "icontract"
    except ImportError:
        orig = opt.extract_solution

        def wrapped(model, die, cells, threshold):
            res = orig(model, die, cells, threshold)
            _record_iteration(model, die, cells, threshold, res)
            return res
        opt.extract_solution = wrapped
        ctx.extra["contract_library"] = "plain wrapper"
    _opt = opt


def gen_clash(rng):
    """over-subscribed instance: two soft modules whose squares coincide and cover whole inner cells of a fine grid, so both are
    held at ratio 1 there.  The optimiser cannot satisfy the capacity constraint: it must not RETURN an over-occupied allocation."""
    n = rng.choice([6, 8])
    step = rng.choice([1.0, 0.5, 2.0])
    W = H = n * step
    side = rng.choice([3, 4]) * step
    c = [rng.choice([n // 2, n // 2 - 1]) * step + (step * 0.0), rng.choice([n // 2, n // 2 - 1]) * step]
    mods = {"S1": {"area": side * side, "center": c}, "S2": {"area": side * side, "center": list(c)}, "S3": {"area": step * step, "center": [step / 2, step / 2]}}
    if rng.random() < 0.5:
        mods["S2"]["area"] = (side - step) ** 2
    return {"cls": "clash", "die": {"fam": "int", "W": W, "H": H, "regions": [], "struct": "empty", "fixed": {}, "netlist": {"Modules": mods, "Nets": [["S1", "S2"], ["S2", "S3"]]}},
            "refine": ["grid", n, n], "alpha": rng.choice([0.3, 0.7]), "threshold": rng.choice([0.9, 0.95]), "max_iter": 1}


def gen_synthetic(rng):
    """hand-made optimiser values for extract_solution: the solver rarely mirrors a flippable module on its own, so the translate /
    mirror step of the real extract_solution is driven directly with model values that ask for a translation, a horizontal, a vertical or
    a double mirror of a multi-rectangle hard module"""
    u = rng.choice([1.0, 0.5, 2.0])
    n = rng.choice([6, 8])
    W = H = n * u
    # asymmetric orthogon: trunk + one or two branches with offsets in both axes
    rects = [[2 * u, 2 * u, 2 * u, 1 * u], [1.5 * u, 3 * u, 1 * u, 1 * u]]
    if rng.random() < 0.5:
        rects.append([3.5 * u, 1.75 * u, 1 * u, 0.5 * u])
    flip = rng.random() < 0.8
    mods = {"H": {"hard": True, "rectangles": rects}, "S": {"area": 2 * u * u, "center": [W - 2 * u, H - 2 * u]},
            "S2": {"area": 2 * u * u, "center": [W - 1 * u, 1 * u]}}
    if flip:
        mods["H"]["flip"] = True
    return {"cls": "synthetic_mirror", "share": rng.randrange(1000) if rng.random() < 0.6 else None, "share_ratio": rng.choice([0.5, 0.5, 0.4, 0.6]),
            "die": {"fam": "int", "W": W, "H": H, "regions": [], "struct": "empty", "fixed": {}, "netlist": {"Modules": mods, "Nets": [["H", "S"], ["S", "S2", 2]]}},
            "refine": ["grid", n, n], "mirror": [rng.random() < 0.5, rng.random() < 0.5] if flip else [False, False],
            "target": [rng.choice([3, 4, 3, 4, 0.9, 1.2, 1.5]) * u, rng.choice([3, 4, 3, 4, 0.8, 1.0]) * u], "threshold": rng.choice([0.9, 0.9, 0.45, 0.3, 0.6]), "alpha": 0.5, "max_iter": 1}


def check_synthetic(case, ctx):
    from frame.allocation.allocation import create_initial_allocation
    ok, res = ctx.call(run, case)
    if not ok:
        ctx.violation("setup_raised", f"{type(res).__name__}: {str(res)[:200]}")
        return
    die, nl = res
    W, H = case["die"]["W"], case["die"]["H"]
    before = module_state(nl)
    alloc0 = create_initial_allocation(die)
    cells = [ra.rect for ra in alloc0.allocations]
    model = _opt.Model()
    hmod = nl.get_module("H")
    a0 = sum(r.area for r in hmod.rectangles)
    c0x = sum(r.center.x * r.area for r in hmod.rectangles) / a0
    c0y = sum(r.center.y * r.area for r in hmod.rectangles) / a0
    tx, ty = case["target"]
    sx, sy = (-1.0 if case["mirror"][0] else 1.0), (-1.0 if case["mirror"][1] else 1.0)
    for m in nl.modules:
        model.a[m.name] = {c: float(alloc0.allocations[c].alloc.get(m.name, 0.0)) for c in range(len(cells))}
        if m.name == "H":
            model.x["H"], model.y["H"] = float(tx), float(ty)
            for r, rect in enumerate(m.rectangles):
                model.x[f"H_{r}"] = float(tx + sx * (rect.center.x - c0x))
                model.y[f"H_{r}"] = float(ty + sy * (rect.center.y - c0y))
                model.d[f"H_{r}"] = 0.25
        else:
            model.x[m.name], model.y[m.name], model.d[m.name] = float(m.center.x), float(m.center.y), 0.5
    if case.get("share") is not None:
        # the optimiser left two soft modules sharing one cell (any split is a legitimate model value); whatever the threshold,
        # the extracted allocation must not occupy that cell beyond 100%
        k = case["share"] % len(cells)
        if not cells[k].fixed and model.a["H"].get(k, 0.0) == 0.0:
            model.a["S"][k] = float(case["share_ratio"])
            model.a["S2"][k] = float(1.0 - case["share_ratio"])
            ctx.count("synthetic_shared_cells:threshold_" + ("below_half" if case["threshold"] < 0.5 else "above_half"))
    _iters.clear()
    ok, out = ctx.call(_opt.extract_solution, model, die, cells, case["threshold"])
    what = f"case={case}"
    if not ok:
        ctx.violation("extract_raised", f"extract_solution raised {type(out).__name__}: {str(out)[:200]} :: {what}")
        return
    ctx.count("synthetic_extractions_judged")
    if min(tx, ty) < 2 * case["die"]["W"] / case["refine"][1]:
        ctx.count("synthetic_targets_at_the_left_or_bottom_border")      # some rectangle of the module crosses the border: still a rigid motion
    ctx.nontrivial(True)
    d2, alloc, disp = out
    snap = snapshot_result(d2, alloc)
    judge(ctx, snap, before, W, H, what, "synthetic extract_solution")
    # the rectangles must be exactly the requested translate / mirror image
    got = snap["modules"]["H"]["abs"]
    want = [(tx + sx * o[0], ty + sy * o[1], o[2], o[3]) for o in before["H"]["offs"]]
    if any(abs(g[0] - w[0]) > 1e-9 * W or abs(g[1] - w[1]) > 1e-9 * H or g[2] != w[2] or g[3] != w[3] for g, w in zip(got, want)):
        ctx.violation("wrong_rigid_motion", f"asked for centre {case['target']} mirror={case['mirror']}: rectangles {got}, expected {want} :: {what}")
    try:
        model.gekko.cleanup()
    except Exception:  # noqa
        pass


def generate(rng, tier, i):
    if i % 12 == 11:
        return gen_clash(rng)
    if i % 12 == 5:
        return gen_synthetic(rng)
    fam = rng.choice(["int", "int", "half", "dec_0.1"])
    d = gd.gen_die(rng, max_n=4, fam=fam, struct=rng.choice(["empty", "empty", "random", "border", "corners"]))
    if d["nx"] < 2 or d["ny"] < 2:
        d = gd.gen_die(rng, max_n=4, fam=fam, struct="empty")
        while d["nx"] < 2 or d["ny"] < 2:
            d = gd.gen_die(rng, max_n=4, fam=fam, struct="empty")
    if len(d["regions"]) + sum(len(v) for v in d["fixed"].values()) > 2:
        d["regions"] = d["regions"][:1]
        d["fixed"] = dict(list(d["fixed"].items())[:1])
    xs, ys = [F(x) for x in d["xs"]], [F(y) for y in d["ys"]]
    step = min((xs[-1] - xs[0]) / d["nx"], (ys[-1] - ys[0]) / d["ny"])
    free_area = float(xs[-1] * ys[-1]) - sum(r[2] * r[3] for r in d["regions"]) - sum(r[2] * r[3] for rs in d["fixed"].values() for r in rs)
    mods = {name: {"fixed": True, "rectangles": [list(r) for r in rs]} for name, rs in d["fixed"].items()}
    n = rng.randint(2, 6 - len(mods)) if len(mods) < 4 else 2
    budget = 0.6 * free_area
    for k in range(n):
        kind = rng.choice(["soft", "soft", "soft", "hard", "flip"])
        if kind == "soft":
            side = float(step) * rng.choice([0.5, 0.75, 1.0, 1.25])
            a = side * side
            if a > budget:
                a = max(budget / 2, 1e-3)
            budget -= a
            mods[f"S{k}"] = {"area": float(f"{a:.6g}"), "center": [geo.fl(rng.choice(xs[:-1]) + step / 2), geo.fl(rng.choice(ys[:-1]) + step / 2)]}
        else:
            i0 = rng.randint(0, d["nx"] - 1)
            j0 = rng.randint(0, d["ny"] - 1)
            rects = [geo.cwh(xs[i0], xs[i0 + 1], ys[j0], ys[j0 + 1])]
            if rng.random() < 0.5 and i0 + 2 <= d["nx"] and j0 + 1 < d["ny"] + 0:
                pass
            if rng.random() < 0.5 and j0 + 2 <= d["ny"]:
                # a branch on the north side, half as wide
                rects.append(geo.cwh(xs[i0], (xs[i0] + xs[i0 + 1]) / 2, ys[j0 + 1], (ys[j0 + 1] + ys[j0 + 2]) / 2 if False else ys[j0 + 1] + (ys[j0 + 2] - ys[j0 + 1]) / 2))
            if rng.random() < 0.3 and i0 + 2 <= d["nx"]:
                rects.append(geo.cwh(xs[i0 + 1], xs[i0 + 1] + (xs[i0 + 2] - xs[i0 + 1]) / 2, ys[j0], (ys[j0] + ys[j0 + 1]) / 2))
            if rng.random() < 0.25 and j0 + 2 <= d["ny"] and i0 + 2 <= d["nx"]:
                # a staircase (Z) of two rectangles: rigid all the same, although it is not a single-trunk orthogon
                xm = (xs[i0] + xs[i0 + 1]) / 2
                rects = [rects[0], geo.cwh(xm, xm + (xs[i0 + 1] - xs[i0]), ys[j0 + 1], ys[j0 + 1] + (ys[j0 + 2] - ys[j0 + 1]) / 2)]
                kind = "stair"
            # shrink hard rectangles so that they take a fraction of the budget
            sc = rng.choice([0.5, 0.6, 0.8])
            cx0, cy0 = rects[0][0], rects[0][1]
            rects = [[cx0 + (r[0] - cx0) * sc, cy0 + (r[1] - cy0) * sc, r[2] * sc, r[3] * sc] for r in rects]
            rects = [[float(f"{v:.9g}") for v in r] for r in rects]
            a = sum(r[2] * r[3] for r in rects)
            if a > budget:
                continue
            budget -= a
            if kind == "stair":
                mods[f"Z{k}"] = {"hard": True, "rectangles": rects}
                continue
            mods[f"H{k}"] = {"hard": True, "rectangles": rects}
            if kind == "flip":
                mods[f"H{k}"]["flip"] = True
    if sum(1 for m in mods.values() if "fixed" not in m) < 1:
        mods["S99"] = {"area": float(f"{max(min(budget, float(step * step) / 4), float(step * step) / 100):.6g}"), "center": [geo.fl(xs[0] + step / 2), geo.fl(ys[0] + step / 2)]}
    names = list(mods)
    nets = []
    for _ in range(rng.randint(1, 5)):
        if len(names) >= 2:
            e = rng.sample(names, rng.randint(2, min(3, len(names))))
            if rng.random() < 0.4:
                e.append(rng.choice([2, 0.5, 5]))
            nets.append(e)
    if not d["regions"] and not d["fixed"] and rng.random() < 0.6:
        refine = ["grid", rng.randint(1, 4), rng.randint(1, 4)]
        if refine[1] + refine[2] < 3:
            refine[2] = 2
    else:
        refine = ["split", rng.choice([1.5, 2, 3]), rng.choice([2, 4, 8, 12, 16])]
    slim = {k: d[k] for k in ("fam", "W", "H", "regions", "struct")}
    slim["fixed"] = {}
    slim["netlist"] = {"Modules": mods, "Nets": nets}
    return {"cls": refine[0], "die": slim, "refine": refine, "alpha": rng.choice([0, 0.3, 0.7, 1]), "threshold": rng.choice([0.7, 0.9, 0.95, 0.99, 0.9, 0.45]),
            "max_iter": rng.choice([1, 1, 2, 3])}


# ---------------------------------------------------------------------------------------------
def module_state(nl):
    out = {}
    for m in nl.modules:
        if m.is_hard and not m.is_terminal and m.num_rectangles > 0:
            a = sum(r.area for r in m.rectangles)
            cx = sum(r.center.x * r.area for r in m.rectangles) / a
            cy = sum(r.center.y * r.area for r in m.rectangles) / a
            out[m.name] = {"fixed": m.is_fixed, "flip": m.flip, "abs": [(r.center.x, r.center.y, r.shape.w, r.shape.h) for r in m.rectangles],
                           "offs": [(r.center.x - cx, r.center.y - cy, r.shape.w, r.shape.h) for r in m.rectangles]}
    return out


def snapshot_result(die, alloc):
    nl = die.netlist
    return {
        "cells": [((ra.rect.center.x, ra.rect.center.y, ra.rect.shape.w, ra.rect.shape.h), dict(ra.alloc), bool(ra.rect.fixed)) for ra in alloc.allocations],
        "centres": {m.name: (None if m.center is None else (m.center.x, m.center.y)) for m in nl.modules},
        "modules": module_state(nl),
    }


def judge(ctx, snap, before, W, H, what, where):
    die_box = XR(0, W, 0, H)
    scale = max(W, H)
    tl = F(1e-9) * F(scale)
    cells = [(XR.from_cwh(*c[0]), c[1], c[2]) for c in snap["cells"]]
    ctx.count("cells_checked", len(cells))
    for k, (X, amap, fx) in enumerate(cells):
        if X.inside_margin(die_box) < -tl:
            ctx.violation("cell_outside_die", f"{where}: cell {X} leaves the {W}x{H} die :: {what}")
        tot = 0.0
        for name, v in amap.items():
            if not (isinstance(v, float) or isinstance(v, int)) or not math.isfinite(v) or v < -1e-4 or v > 1 + 1e-4:
                ctx.violation("ratio_out_of_range", f"{where}: cell {X}: ratio of {name} is {v!r} :: {what}")
            else:
                tot += v
        if tot > 1 + 1e-4:
            ctx.violation("cell_over_occupied", f"{where}: cell {X} is occupied {tot!r} > 100% by {amap} :: {what}")
    for a in range(len(cells)):
        for b in range(a + 1, len(cells)):
            iw, ih = cells[a][0].inter_wh(cells[b][0])
            if iw > tl and ih > tl:
                ctx.violation("cells_overlap", f"{where}: cells {cells[a][0]} and {cells[b][0]} overlap :: {what}")
    for name, c in snap["centres"].items():
        if c is None:
            continue
        if not (math.isfinite(c[0]) and math.isfinite(c[1])) or c[0] < -1e-6 * W or c[0] > W * (1 + 1e-6) or c[1] < -1e-6 * H or c[1] > H * (1 + 1e-6):
            ctx.violation("centre_outside_die", f"{where}: centre of {name} is {c}, die {W}x{H} :: {what}")
    for name, st in snap["modules"].items():
        b = before[name]
        if st["fixed"]:
            ctx.count("fixed_modules_checked")
            if st["abs"] != b["abs"]:
                ctx.violation("fixed_rectangles_changed", f"{where}: fixed module {name}: {b['abs']} -> {st['abs']} :: {what}")
            for r in st["abs"]:
                owner = [c for c in snap["cells"] if all(abs(u - v) <= 1e-9 * scale for u, v in zip(c[0], r))]
                if len(owner) != 1:
                    ctx.violation("fixed_cell_missing", f"{where}: fixed rectangle {r} of {name} is not exactly one cell of the allocation :: {what}")
                    continue
                amap = owner[0][1]
                if abs(amap.get(name, 0.0) - 1.0) > 1e-4 or any(v > 1e-4 for k2, v in amap.items() if k2 != name):
                    ctx.violation("fixed_cell_not_owned", f"{where}: cell of fixed module {name} has map {amap} :: {what}")
        else:
            ctx.count("hard_modules_checked")
            if name.startswith("Z"):
                ctx.count("staircase_hard_modules_checked")
            tol = 1e-6 * scale
            got = st["offs"]
            ok = False
            for sx, sy in ((1, 1), (-1, 1), (1, -1), (-1, -1)):
                if (sx, sy) != (1, 1) and not b["flip"]:
                    continue
                if len(got) == len(b["offs"]) and all(abs(g[0] - sx * o[0]) <= tol and abs(g[1] - sy * o[1]) <= tol and g[2] == o[2] and g[3] == o[3]
                                                     for g, o in zip(got, b["offs"])):
                    ok = True
            if not ok:
                ctx.violation("hard_module_reshaped", f"{where}: hard module {name} (flip={b['flip']}): offsets {b['offs']} -> {got} :: {what}")


def run(case):
    die, nl = dieutil.build_die(case["die"], "tree")
    ref = case["refine"]
    if ref[0] == "grid":
        die.initial_grid(ref[1], ref[2])
    elif len(die.ground_regions) + len(die.specialized_regions) > 0:
        die.split_refinable_regions(ref[1], ref[2])
    return die, nl


def check(case, ctx):
    if case["cls"] == "synthetic_mirror":
        return check_synthetic(case, ctx)
    ok, res = ctx.call(run, case)
    if not ok:
        ctx.violation("setup_raised", f"{type(res).__name__}: {str(res)[:200]} :: {case['die']}")
        return
    die, nl = res
    W, H = case["die"]["W"], case["die"]["H"]
    before = module_state(nl)
    _iters.clear()
    what = f"case={case}"
    cwd = os.getcwd()
    buf = io.StringIO()
    try:
        with contextlib.redirect_stdout(buf):
            res = _opt.glbfloor(die, case["threshold"], case["alpha"], max_iter=case["max_iter"], verbose=False)
        returned = True
    except Exception as e:  # noqa  (GEKKO: solution not found; assertion inside the tool; ...)
        returned = False
        err = e
    finally:
        os.chdir(cwd)
        scratch = os.environ.get("FV_SCRATCH")
        if scratch and os.path.isdir(scratch):
            for name in os.listdir(scratch):
                if name.startswith("tmp") and os.path.isdir(os.path.join(scratch, name)):
                    shutil.rmtree(os.path.join(scratch, name), ignore_errors=True)
    # every iteration the optimiser completed is judged, even if a later one failed
    for k, snap in enumerate(_iters):
        ctx.count("iterations_judged_by_contract")
        judge(ctx, snap, before, W, H, what, f"iteration {k + 1}")
    if not returned:
        msg = str(err)
        kind = "solver_no_solution" if "olution" in msg or "apm" in msg.lower() or "@error" in msg else type(err).__name__
        ctx.count("no_return:" + kind)
        return
    ctx.count("returned")
    d2, alloc = res
    ctx.count("final_returns_judged")
    snap = snapshot_result(d2, alloc)
    ctx.nontrivial(len(snap["cells"]) >= 2)
    judge(ctx, snap, before, W, H, what, "final return")
