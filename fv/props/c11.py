"""C11 - Die refinement keeps the tiling, reaches the count and bounds the aspect ratio.

Monitor: postcondition on the real Die.split_refinable_regions / Die.initial_grid: parent matching by
centre, exact containment / tiling per parent, tag equality, aspect ratio, count, untouched blockages
and fixed regions, whole-die tiling invariant; repeated refinement histories."""
from fractions import Fraction as F

from fv import dieutil
from fv.exact import XR, tiling_report
from fv.gen import dies as gd
from fv.props import c01

ID = "C11"
RULE = ("dies from the C01 generator with >=1 refinable region; aspect-ratio limits r in {1.416,1.42,1.5,1.7,1.99,2,2.5,3,10}, counts n in 1..64, "
        "1-3 successive refinements; all grid shapes rows,cols<=8 on empty dies; non-trivial = the call created >=1 new region; distinct = distinct (die, parameters)")
ASSUMPTIONS = [
    "the die has at least one refinable (ground or specialised) region: a fully blocked die cannot reach any count",
    "aspect ratio judged with relative slack 1e-12",
]
CASES = {"quick": 6000, "thorough": 400000}
MIN_CASES = {"quick": 1500, "thorough": 30000}
REQUIRED_CLASSES = ["split", "grid"]
REQUIRED_COUNTERS = ["split_judged", "grid_judged", "aspect_checked", "count_checked", "parent_tiling_checked", "untouched_checked", "accessor_checked", "r_below_2", "inadmissible_requests_first"]
RS = [1.416, 1.42, 1.5, 1.7, 1.99, 2, 2.5, 3, 10]


def setup(ctx):
    import frame.die.die  # noqa


def generate(rng, tier, i):
    if i % 4 == 3:
        d = gd.gen_die(rng, max_n=12, struct="empty")
        return {"cls": "grid", "die": c01._slim(d), "rows": rng.randint(1, 8), "cols": rng.randint(1, 8)}
    if i % 20 == 6:
        # an empty die whose aspect ratio exceeds the limit by a hair (1e-4 .. 4e-4 relative): it must still be cut
        r = rng.choice(RS)
        H = rng.choice([1.0, 2.5, 10.0, 0.4])
        W = float(f"{H * r * (1 + rng.choice([1e-4, 2e-4, 4e-4])):.9g}")
        if rng.random() < 0.5:
            W, H = H, W
        return {"cls": "split", "die": {"fam": "int", "W": W, "H": H, "regions": [], "fixed": {}, "struct": "just_above_limit"}, "steps": [[r, 1]]}
    d = gd.gen_die(rng, max_n=10)
    steps = [[rng.choice(RS), rng.choice([1, 1, 2, 3, 4, 5, 7, 8, 16, 17, 32, 64, rng.randint(1, 64)])] for _ in range(rng.choice([1, 1, 2, 3]))]
    case = {"cls": "split", "die": c01._slim(d), "steps": steps}
    if rng.random() < 0.15:
        case["bad_first"] = rng.choice([[1.2, 4], [1.0, 2], [1.41, 3], [2, 0], [1.5, -1]])
    return case


def directed():
    return [
        {"cls": "split", "die": {"fam": "int", "W": 4.0, "H": 4.0, "regions": [], "fixed": {}, "struct": "directed"}, "steps": [[1.5, 2]]},
        {"cls": "split", "die": {"fam": "int", "W": 4.0, "H": 4.0, "regions": [], "fixed": {}, "struct": "directed"}, "steps": [[1.42, 3]]},
        {"cls": "split", "die": {"fam": "int", "W": 6.0, "H": 4.0, "regions": [[1.0, 1.0, 2.0, 2.0, "#"]], "fixed": {}, "struct": "directed"}, "steps": [[1.7, 9], [1.5, 20]]},
    ]


def snap(rs):
    return [(id(r), r.center.x, r.center.y, r.shape.w, r.shape.h, r.region, r.fixed) for r in rs]


def judge_refinement(ctx, die, before_ref, before_block, before_fixed, d, what, r_limit=None, count=None, exact_count=False):
    scale = max(d["W"], d["H"])
    new_ref = die.specialized_regions + die.ground_regions
    acc_ref, acc_fix = die.floorplanning_rectangles()
    ctx.count("accessor_checked")
    if sorted(snap(acc_ref)) != sorted(snap(new_ref)) or sorted(snap(acc_fix)) != sorted(snap(die.fixed_regions)):
        ctx.violation("accessor_stale", f"{what}: floorplanning_rectangles() reports {len(acc_ref)} refinable / {len(acc_fix)} fixed regions, the die has {len(new_ref)} / {len(die.fixed_regions)}")
    ctx.count("untouched_checked")
    if snap(die.blockages) != before_block:
        ctx.violation("blockages_touched", f"{what}: blockages changed")
    if snap(die.fixed_regions) != before_fixed:
        ctx.violation("fixed_touched", f"{what}: fixed regions changed")
    ctx.count("count_checked")
    if count is not None:
        if len(new_ref) < count or (exact_count and len(new_ref) != count):
            ctx.violation("count", f"{what}: {len(new_ref)} refinable regions, asked for {'exactly' if exact_count else 'at least'} {count}")
    # parent matching
    parents = [(XR.from_cwh(*b[1:5]), b[5]) for b in before_ref]
    pf = [(b[1] - b[3] / 2, b[1] + b[3] / 2, b[2] - b[4] / 2, b[2] + b[4] / 2) for b in before_ref]     # float pre-filter only
    kids = [[] for _ in parents]
    tl = F(1e-9) * F(scale)
    ftl = 1e-6 * scale
    for r in new_ref:
        X = XR.of(r)
        cx, cy = r.center.x, r.center.y
        cand = [k for k, q in enumerate(pf) if q[0] - ftl <= cx <= q[1] + ftl and q[2] - ftl <= cy <= q[3] + ftl]
        owner = [k for k in cand if parents[k][0].contains_point(X.cx, X.cy)]
        owner = [k for k in owner if X.inside_margin(parents[k][0]) >= -tl]
        if len(owner) != 1:
            ctx.violation("no_unique_parent", f"{what}: region {X} lies inside {len(owner)} former refinable regions")
            return
        kids[owner[0]].append(r)
        if r.region != parents[owner[0]][1]:
            ctx.violation("tag_changed", f"{what}: region {X} tagged {r.region!r}, cut from a region tagged {parents[owner[0]][1]!r}")
        if r.fixed:
            ctx.violation("flag_changed", f"{what}: refinable region flagged fixed")
    ctx.count("parent_tiling_checked")
    for (P, tag), ks in zip(parents, kids):
        rep = tiling_report([XR.of(k) for k in ks], P, scale)
        if rep:
            ctx.violation("parent_not_tiled", f"{what}: children do not tile {P}: {rep}")
            break
    if r_limit is not None:
        ctx.count("aspect_checked")
        for r in new_ref:
            X = XR.of(r)
            ar = max(X.w / X.h, X.h / X.w)
            if ar > F(r_limit) * (1 + F(1, 10 ** 12)):
                ctx.violation("aspect_ratio", f"{what}: region {X} has aspect ratio {float(ar)} > {r_limit}")
                break
    ctx.nontrivial(len(new_ref) > len(before_ref))


def check(case, ctx):
    d = case["die"]
    ok, res = ctx.call(dieutil.build_die, d, "tree")
    if not ok:
        ctx.violation("valid_rejected", f"valid die rejected: {type(res).__name__}: {str(res)[:200]} :: {d}")
        return
    die, nl = res
    if case["cls"] == "grid":
        rows, cols = case["rows"], case["cols"]
        if rows + cols <= 1:
            ctx.count("grid_1x1_skipped")
            return
        die.floorplanning_rectangles()         # the accessor used before ... and after (below): what it reports must follow the refinement
        bref, bb, bf = snap(die.specialized_regions + die.ground_regions), snap(die.blockages), snap(die.fixed_regions)
        ok, e = ctx.call(die.initial_grid, rows, cols)
        if not ok:
            ctx.violation("grid_raised", f"initial_grid({rows},{cols}) on an empty {d['W']}x{d['H']} die raised {type(e).__name__}: {e}")
            return
        ctx.count("grid_judged")
        judge_refinement(ctx, die, bref, bb, bf, d, f"initial_grid({rows},{cols})", None, rows * cols, exact_count=True)
        c01.judge_die(ctx, die, d, nl, refined=True)
        return
    if len(die.specialized_regions) + len(die.ground_regions) == 0:
        ctx.count("no_refinable_region_skipped")
        return
    if case.get("bad_first"):
        before_all = (snap(die.specialized_regions), snap(die.ground_regions), snap(die.blockages), snap(die.fixed_regions))
        rb, nb = case["bad_first"]
        ok, e = ctx.call(die.split_refinable_regions, rb, nb)
        ctx.count("inadmissible_requests_first")
        if ok:
            ctx.violation("inadmissible_accepted", f"split_refinable_regions({rb},{nb}) was accepted")
        if (snap(die.specialized_regions), snap(die.ground_regions), snap(die.blockages), snap(die.fixed_regions)) != before_all:
            ctx.violation("refused_request_altered_die", f"a refused request ({rb},{nb}) altered the die: {case['die']}")
            return
    for (r, n) in case["steps"]:
        if len(die.specialized_regions) + len(die.ground_regions) > 300:
            ctx.count("sequence_cut_short_by_size_cap")
            break
        if r < 2:
            ctx.count("r_below_2")
        die.floorplanning_rectangles()
        bref, bb, bf = snap(die.specialized_regions + die.ground_regions), snap(die.blockages), snap(die.fixed_regions)
        ok, e = ctx.call(die.split_refinable_regions, r, n)
        if not ok:
            ctx.violation("split_raised", f"split_refinable_regions({r},{n}) raised {type(e).__name__}: {e} :: {d}")
            return
        ctx.count("split_judged")
        judge_refinement(ctx, die, bref, bb, bf, d, f"split_refinable_regions({r},{n}) on W={d['W']} H={d['H']} regions={d['regions']}", r, n)
        c01.judge_die(ctx, die, d, nl, refined=True)
