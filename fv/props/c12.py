"""C12 - Refinement decisions are consistent, exact and terminate.

Monitor: (i) must_be_refined(t) is compared with 'refine(t) changes the allocation' at every round of
the refine-while-needed loop (the livelock state 'predicate true, operation a no-op' is the refuted
event); (ii) exact reference for which cells split, into how many, by halving the longer side, with
which depth; (iii) uniform-depth and grid post-conditions."""
from fv import allocutil as au

ID = "C12"
RULE = ("allocations from the C02 generator (empty maps, ratios exactly at the threshold, unequal numbers of x/y boundaries, mixed depths, fixed cells); "
        "operation sequences plus the refine-while-needed loop driven for up to 4 rounds; non-trivial = some cell was split; distinct = distinct (allocation, sequence)")
ASSUMPTIONS = [
    "liveness restated as safety: must_be_refined(t) is true exactly when refine(t) changes the allocation, checked at every round of a bounded loop (<=4 rounds)",
    "fixed cells are exempt from splitting in all three operations (the reading under which C02 'fixed cells are never cut' and C12 are jointly satisfiable)",
    "grid post-condition uses the dimensions the cut decision was taken on (x-lines: the original cell's height; y-lines: the cell's final width), so legitimately refused 1% cuts are never flagged",
]
CASES = {"quick": 5000, "thorough": 250000}
MIN_CASES = {"quick": 1200, "thorough": 25000}
REQUIRED_COUNTERS = ["predicate_vs_operation_checked", "refine_cells_should_split", "refine_cells_should_stay", "uniform_cells_judged",
                     "grid_cells_judged", "grid_lines_inside_examined", "loop_rounds", "empty_map_cells", "at_threshold_cells", "layout:one_percent", "predicate_vs_operation_checked_after_retagging"]


def setup(ctx):
    import frame.allocation.allocation  # noqa


def generate(rng, tier, i):
    a = au.gen_alloc(rng)
    return {"cls": a["form"], "alloc": a, "loop_t": rng.choice([a["t"], a["t"], rng.choice(au.THRESHOLDS)])}


def directed():
    def cell(r, a, d=0, f=False):
        return {"r": r, "a": a, "d": d, "f": f}
    from fv.props import c02
    out = [dict(c, loop_t=0.5) for c in c02.directed()]
    out.append({"cls": "directed_empty_map", "loop_t": 0.9, "alloc": {"fam": "int", "layout": "two", "cells": [cell([1.0, 1.0, 2.0, 2.0], {}), cell([3.0, 1.0, 2.0, 2.0], {"M0": 0.95})],
                "ops": [["refine", 0.9, 1]], "form": "tree", "t": 0.9, "ext": [4.0, 2.0]}})
    return out


def signature(a):
    return sorted((ra.rect.center.x, ra.rect.center.y, ra.rect.shape.w, ra.rect.shape.h, ra.depth) for ra in a.allocations)


def check(case, ctx):
    al = case["alloc"]
    ok, a0 = ctx.call(au.build_alloc, al)
    if not ok:
        ctx.violation("valid_allocation_rejected", f"constructor raised {type(a0).__name__}: {str(a0)[:300]} on {al['cells']}")
        return
    scale = max(al["ext"])
    if not au.loaded_matches_document(ctx, a if "a0" not in dir() else a0, al):
        return
    ctx.count("layout:" + al["layout"])
    for c in al["cells"]:
        if not c["a"]:
            ctx.count("empty_map_cells")
        if any(v == al["t"] for v in c["a"].values()):
            ctx.count("at_threshold_cells")
    a = a0
    for k, op in enumerate(al["ops"]):
        if au.predicted_size(a, op) > 200:
            ctx.count("sequence_cut_short_by_size_cap")
            break
        what = f"op#{k} {op} after {al['ops'][:k]} on cells={al['cells']}"
        n0 = a.num_rectangles
        if op[0] == "refine":
            ok, pred = ctx.call(a.must_be_refined, op[1])
            if not ok:
                ctx.violation("predicate_raised", f"must_be_refined raised {pred!r} :: {what}")
                return
        ok, b = ctx.call(au.apply_op, a, op)
        if not ok:
            ctx.violation("operation_raised", f"{type(b).__name__}: {str(b)[:200]} :: {what}")
            return
        if op[0] == "refine":
            ctx.count("predicate_vs_operation_checked")
            changed = signature(b) != signature(a)
            if bool(pred) != changed:
                ctx.violation("predicate_disagrees", f"must_be_refined({op[1]})={pred} but refine({op[1]},{op[2]}) {'changes' if changed else 'does not change'} the allocation :: {what}")
        au.judge_decisions(ctx, a, b, op, scale, what)
        ctx.nontrivial(b.num_rectangles > n0)
        a = b
    # the refine-while-needed loop, bounded
    t = case["loop_t"]
    a = a0
    for rnd in range(4):
        ok, pred = ctx.call(a.must_be_refined, t)
        if not ok:
            ctx.violation("predicate_raised", f"must_be_refined raised {pred!r}")
            return
        ok, b = ctx.call(a.refine, t)
        if not ok:
            ctx.violation("operation_raised", f"refine({t}) raised {type(b).__name__}: {b} in loop round {rnd} on cells={al['cells']}")
            return
        ctx.count("loop_rounds")
        ctx.count("predicate_vs_operation_checked")
        changed = signature(b) != signature(a)
        if bool(pred) != changed:
            ctx.violation("predicate_disagrees", f"loop round {rnd}: must_be_refined({t})={pred} but refine({t}) {'changes' if changed else 'does not change'} the allocation; cells={al['cells']}")
            return
        if not pred or b.num_rectangles > 150:
            break
        a = b
    # a cell's 'fixed' tag changes between two queries on the same allocation (initial_allocation tags the cells of fixed
    # modules, the tools untag them): predicate and operation must both follow the tag as it is NOW
    a = a0
    cands = [ra for ra in a.allocations if not ra.rect.fixed and len(ra.alloc) > 0 and all(v <= t for v in ra.alloc.values())]
    if cands and au.predicted_size(a, ["refine", t, 1]) <= 200:
        ctx.call(a.must_be_refined, t)
        for ra in cands:
            ra.rect.fixed = True
        try:
            for phase in ("tagged", "untagged"):
                ok, pred = ctx.call(a.must_be_refined, t)
                ok2, b = ctx.call(a.refine, t)
                if not ok or not ok2:
                    ctx.violation("operation_raised", f"after cells were {phase} fixed: {pred!r} / {b!r}; cells={al['cells']}")
                    return
                ctx.count("predicate_vs_operation_checked_after_retagging")
                changed = signature(b) != signature(a)
                if bool(pred) != changed:
                    ctx.violation("predicate_disagrees", f"after {len(cands)} cell(s) were {phase} fixed on the same allocation: must_be_refined({t})={pred} but refine({t}) "
                                                         f"{'changes' if changed else 'does not change'} the allocation; cells={al['cells']}")
                    return
                au.judge_decisions(ctx, a, b, ["refine", t, 1], scale, f"refine({t}) after cells were {phase} fixed on cells={al['cells']}")
                for ra in cands:
                    ra.rect.fixed = False
        finally:
            for ra in cands:
                ra.rect.fixed = False
