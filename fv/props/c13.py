"""C13 - Force-directed relocation: fixed modules stay, centres stay in the die.

Monitor: before/after structural snapshots around the real fruchterman_reingold_layout (centres may
change, nothing else), determinism by running twice on deep copies, and - for force_algorithm - a
recording wrapper patched over the module-global fruchterman_reingold_layout (so the caller sees it)
that logs (kappa, layout, cost) of every trial: the finally returned layout must be the layout of the
first trial with minimal cost."""
import copy
import math

from fv import dieutil
from fv.gen import dies as gd

ID = "C13"
RULE = ("dies 1..1000 (square to 25:1, with fixed regions) and netlists of 2-8 modules with centres: soft, fixed (with rectangles), terminals; coincident centres, centres on the border/corners, "
        "nets of arity 2-5 with weights 0.1-100, isolated modules; kappa in (0,3], max_iter in {0,1,2,5,20}; non-trivial = >=2 movable modules and max_iter>=1; distinct = distinct case")
ASSUMPTIONS = [
    "every module has a centre inside the die (border included), as the quantifier states",
    "fixed centres compared with 1e-9 x die size (the code re-centres by (c-h)+h: a 1-ulp drift is not a move); containment with 1e-12 relative slack",
    "trial costs (total pairwise disc overlap + half the wire length) are recomputed by the harness independently of the library",
]
CASES = {"quick": 6400, "thorough": 250000}
MIN_CASES = {"quick": 1500, "thorough": 4000}
REQUIRED_CLASSES = ["layout", "algorithm"]
REQUIRED_COUNTERS = ["layouts_judged", "determinism_checked", "fixed_modules_checked", "centres_checked", "algorithm_runs_judged", "trials_recorded", "selection_checked", "algorithm_runs_after_earlier_queries", "layouts_repeated_with_visualisation", "algorithm_runs_with_visualisation", "designs_with_movable_modules_that_have_rectangles:algorithm", "designs_with_movable_modules_that_have_rectangles:layout"]

_fr = None
_trials = []


def setup(ctx):
    global _fr
    import tools.force.fruchterman_reingold as fr
    orig = fr.fruchterman_reingold_layout

    def recording(die, kappa=1.0, verbose=False, visualize=None, max_iter=100):
        res = orig(die, kappa, verbose, visualize, max_iter)
        d = res[0]
        try:
            cost = independent_overlap(d.netlist) + independent_wire_length(d.netlist) / 2
        except Exception as e:  # noqa
            cost = repr(e)
        _trials.append({"kappa": kappa, "cost": cost, "centres": [(m.center.x, m.center.y) for m in d.netlist.modules], "same_object": d is die})
        return res
    fr.fruchterman_reingold_layout = recording      # force_algorithm resolves the global at call time
    fr._fv_original_layout = orig
    _fr = fr


def independent_wire_length(nl):
    """wire length from the module centres by its definition (per net: weight x sum of distances to the mean of the member centres),
    computed by the harness: a stale or cached value inside the library must not leak into the oracle"""
    total = 0.0
    for e in nl.edges:
        cs = [(m.center.x, m.center.y) for m in e.modules]
        mx, my = sum(c[0] for c in cs) / len(cs), sum(c[1] for c in cs) / len(cs)
        total += e.weight * sum(math.hypot(c[0] - mx, c[1] - my) for c in cs)
    return total


def independent_overlap(nl):
    """total pairwise disc overlap (every ordered pair of different modules, discs of the modules' areas) by the lens formula, computed
    by the harness"""
    def lens(x1, y1, r1, x2, y2, r2):
        d = math.hypot(x1 - x2, y1 - y2)
        if d >= r1 + r2:
            return 0.0
        if d <= abs(r1 - r2):
            return math.pi * min(r1, r2) ** 2
        a = math.acos(max(-1.0, min(1.0, (r1 * r1 + d * d - r2 * r2) / (2 * r1 * d))))
        b = math.acos(max(-1.0, min(1.0, (r2 * r2 + d * d - r1 * r1) / (2 * r2 * d))))
        return r1 * r1 * a + r2 * r2 * b - d * r1 * math.sin(a)
    ms = [(m.center.x, m.center.y, math.sqrt(m.area() / math.pi)) for m in nl.modules]
    tot = 0.0
    for i_, a in enumerate(ms):
        for j_, b in enumerate(ms):
            if i_ != j_:
                tot += lens(*a, *b)
    return tot


def generate(rng, tier, i):
    d = gd.gen_die(rng, max_n=8, struct=rng.choice(["empty", "empty", "random", "border", "corners"]),
                   fam=rng.choice(["int", "dec_0.1", "large_1e3", "half", "dec_0.01", "odd_1234.567"]))
    # keep only fixed regions + blockages
    W, H = d["W"], d["H"]
    mods = {name: {"fixed": True, "rectangles": rs} for name, rs in d["fixed"].items()}
    n = rng.randint(2, 8)
    pts = []
    for k in range(n):
        r = rng.random()
        if pts and r < 0.2:
            c = list(rng.choice(pts))             # coincident centres
        elif r < 0.4:
            c = [rng.choice([0.0, W, W / 2]), rng.choice([0.0, H, H / 2])]      # border / corner / middle
        elif r < 0.5:
            c = [rng.choice([0.0, W]), round(rng.uniform(0, H), 3)]
        else:
            c = [float(f"{rng.uniform(0, W):.6g}"), float(f"{rng.uniform(0, H):.6g}")]
        pts.append(c)
        r2 = rng.random()
        if r2 < 0.2:
            mods[f"T{k}"] = {"terminal": True, "center": c}
        elif r2 < 0.35:
            # a movable module that already has rectangles (hard, or soft with a shape from an earlier stage)
            w = float(f"{rng.uniform(0.05, 0.3) * W:.4g}")
            h = float(f"{rng.uniform(0.05, 0.3) * H:.4g}")
            cx = min(max(c[0], w / 2), W - w / 2)
            cy = min(max(c[1], h / 2), H - h / 2)
            rects = [[cx, cy, w, h]]
            if rng.random() < 0.4 and cy + h / 2 + h / 4 <= H:
                rects.append([cx - w / 4, cy + h / 2 + h / 8, w / 2, h / 4])       # a branch on the north side
            mods[f"H{k}"] = {"hard": True, "rectangles": rects} if rng.random() < 0.6 else {"area": sum(r[2] * r[3] for r in rects), "rectangles": rects}
        else:
            a = (rng.uniform(0.02, 0.4) * min(W, H)) ** 2
            mods[f"S{k}"] = {"area": float(f"{a:.5g}"), "center": c}
    names = list(mods)
    nets = []
    for _ in range(rng.randint(0, 8)):
        if len(names) >= 2:
            e = rng.sample(names, rng.randint(2, min(5, len(names))))
            if rng.random() < 0.6:
                e.append(rng.choice([0.1, 0.5, 2, 10, 100, 3.7]))
            nets.append(e)
    die = {"fam": d["fam"], "W": W, "H": H, "regions": d["regions"], "fixed": {}, "struct": d["struct"], "netlist": {"Modules": mods, "Nets": nets}}
    if i % 4 == 3:
        # half of the runs query the netlist first (wire length, overlap): a legitimate earlier use that must not influence the result
        return {"cls": "algorithm", "die": die, "max_iter": rng.choice([0, 1, 2, 5, 5]), "query_first": rng.random() < 0.5, "visualize": rng.random() < 0.1}
    return {"visualize": rng.random() < 0.06, "cls": "layout", "die": die, "kappa": rng.choice([1.0, 0.4, 1.5, 0.05, 3.0, round(rng.uniform(0.01, 3), 2)]), "max_iter": rng.choice([0, 1, 2, 5, 20])}


def directed():
    # witnesses of the defect found by the thorough tier (repaired in /repo): with the visualisation option, drawing a frame reset the centre
    # of every module that has rectangles, so such modules came back where they started and the returned layout was not the cheapest trial
    return [{'visualize': True, 'cls': 'layout', 'die': {'fam': 'half', 'W': 8.5, 'H': 3.5, 'regions': [], 'fixed': {}, 'struct': 'empty', 'netlist': {'Modules': {'S0': {'area': 0.48474, 'center': [0.0, 1.75]}, 'S1': {'area': 0.27008, 'center': [5.70138, 1.19287]}, 'S2': {'area': 0.44684, 'center': [8.5, 2.558]}, 'H3': {'area': 1.1727239999999999, 'rectangles': [[5.70138, 1.19287, 1.932, 0.607]]}, 'H4': {'hard': True, 'rectangles': [[7.6075, 2.558, 1.785, 0.8784], [7.16125, 3.1069999999999998, 0.8925, 0.2196]]}, 'S5': {'area': 1.1347, 'center': [1.51161, 3.37897]}, 'S6': {'area': 1.261, 'center': [1.36015, 1.10302]}, 'S7': {'area': 0.61832, 'center': [8.5, 2.558]}}, 'Nets': [['S0', 'H3', 'S7']]}}, 'kappa': 1.5, 'max_iter': 1},
            {'cls': 'algorithm', 'die': {'fam': 'half', 'W': 8.5, 'H': 3.5, 'regions': [], 'fixed': {}, 'struct': 'empty', 'netlist': {'Modules': {'S0': {'area': 0.48474, 'center': [0.0, 1.75]}, 'S1': {'area': 0.27008, 'center': [5.70138, 1.19287]}, 'S2': {'area': 0.44684, 'center': [8.5, 2.558]}, 'H3': {'area': 1.1727239999999999, 'rectangles': [[5.70138, 1.19287, 1.932, 0.607]]}, 'H4': {'hard': True, 'rectangles': [[7.6075, 2.558, 1.785, 0.8784], [7.16125, 3.1069999999999998, 0.8925, 0.2196]]}, 'S5': {'area': 1.1347, 'center': [1.51161, 3.37897]}, 'S6': {'area': 1.261, 'center': [1.36015, 1.10302]}, 'S7': {'area': 0.61832, 'center': [8.5, 2.558]}}, 'Nets': [['S0', 'H3', 'S7']]}}, 'max_iter': 2, 'query_first': False, 'visualize': True}]


def snapshot(die):
    from fv import netutil as nu
    s = nu.summary(die.netlist)
    regs = [dieutil.rect_key(r) for r in die.ground_regions + die.specialized_regions + die.blockages + die.fixed_regions]
    return s, regs, (die.width, die.height)


def strip_centres(s):
    s = copy.deepcopy(s)
    for m in s["modules"]:
        if not m["rectangles"] or True:
            m["center"] = None
    return s


def judge_layout(ctx, case, before, die_after, what):
    W, H = case["die"]["W"], case["die"]["H"]
    after = snapshot(die_after)
    if strip_centres(before[0]) != strip_centres(after[0]) or before[1] != after[1] or before[2] != after[2]:
        ctx.violation("something_else_changed", f"something other than centres changed :: {what}")
    for b, a in zip(before[0]["modules"], after[0]["modules"]):
        c = a["center"]
        ctx.count("centres_checked")
        if c is None or not (math.isfinite(c[0]) and math.isfinite(c[1])):
            ctx.violation("centre_not_finite", f"module {a['name']} has centre {c} :: {what}")
            continue
        if c[0] < -1e-12 * W or c[0] > W * (1 + 1e-12) or c[1] < -1e-12 * H or c[1] > H * (1 + 1e-12):
            ctx.violation("centre_outside_die", f"module {a['name']} ends at {c}, die {W}x{H} :: {what}")
        if a["kind"]["fixed"]:
            ctx.count("fixed_modules_checked")
            if abs(c[0] - b["center"][0]) > 1e-9 * W or abs(c[1] - b["center"][1]) > 1e-9 * H:
                ctx.violation("fixed_moved", f"fixed module {a['name']} moved {b['center']} -> {c} :: {what}")


def check(case, ctx):
    fr = _fr
    d = case["die"]
    ok, res = ctx.call(dieutil.build_die, d, "tree")
    if not ok:
        ctx.violation("setup_raised", f"{type(res).__name__}: {str(res)[:200]} :: {d}")
        return
    die, nl = res
    movable = sum(1 for m in nl.modules if not m.is_fixed)
    ctx.nontrivial(movable >= 2 and case["max_iter"] >= 1)
    if any(not m.is_fixed and not m.is_terminal and m.num_rectangles > 0 and any(m in e.modules for e in nl.edges) for m in nl.modules):
        ctx.count("designs_with_movable_modules_that_have_rectangles:" + case["cls"])
    before = snapshot(die)
    what = f"case={case}"
    if case["cls"] == "layout":
        die2 = copy.deepcopy(die)
        ok, r1 = ctx.call(fr._fv_original_layout, die, case["kappa"], False, None, case["max_iter"])
        if not ok:
            ctx.violation("layout_raised", f"{type(r1).__name__}: {str(r1)[:200]} :: {what}")
            return
        ctx.count("layouts_judged")
        if r1[0] is not die:
            ctx.count("returned_other_object")
        judge_layout(ctx, case, before, r1[0], what)
        vis = "fv_vis" if case.get("visualize") else None      # producing the frames of an animation must not change the layout
        if vis:
            ctx.count("layouts_repeated_with_visualisation")
        ok, r2 = ctx.call(fr._fv_original_layout, die2, case["kappa"], False, vis, case["max_iter"])
        ctx.count("determinism_checked")
        if not ok or [(m.center.x, m.center.y) for m in r2[0].netlist.modules] != [(m.center.x, m.center.y) for m in r1[0].netlist.modules]:
            ctx.violation("not_deterministic", f"two runs from equal inputs differ :: {what}")
        return
    # force_algorithm
    if case.get("query_first"):
        ctx.count("algorithm_runs_after_earlier_queries")
        ctx.call(lambda: (die.netlist.wire_length, fr.total_intersection_area(die), die.netlist.num_rectangles))
    _trials.clear()
    if case.get("visualize"):
        ctx.count("algorithm_runs_with_visualisation")
    ok, r = ctx.call(fr.force_algorithm, die, False, "fv_vis" if case.get("visualize") else None, case["max_iter"])
    if not ok:
        ctx.violation("algorithm_raised", f"{type(r).__name__}: {str(r)[:200]} :: {what}")
        return
    ctx.count("algorithm_runs_judged")
    judge_layout(ctx, case, before, r[0], what)
    ctx.count("trials_recorded", len(_trials))
    if len(_trials) < 2:
        ctx.violation("no_trials", f"only {len(_trials)} layout calls observed")
        return
    trials, final = _trials[:-1], _trials[-1]
    if any(not isinstance(t["cost"], float) or not math.isfinite(t["cost"]) for t in trials):
        ctx.violation("cost_not_finite", f"trial costs {[t['cost'] for t in trials]} :: {what}")
        return
    ctx.count("selection_checked")
    best = min(range(len(trials)), key=lambda k: (trials[k]["cost"], k))
    got_centres = [(m.center.x, m.center.y) for m in r[0].netlist.modules]
    same = [t for t in trials if t["kappa"] == final["kappa"]]
    if not same:
        ctx.violation("wrong_selection", f"final layout uses kappa={final['kappa']}, which was not among the trials {[t['kappa'] for t in trials]} :: {what}")
        return
    chosen = same[0]
    # costs that agree within rounding noise are ties: any of them is 'the smallest' (the harness computes the wire length independently,
    # in a different summation order than the library)
    tol = 1e-9 * max(1.0, abs(trials[best]["cost"]))
    if chosen["cost"] > trials[best]["cost"] + tol:
        ctx.violation("wrong_selection", f"final layout uses kappa={final['kappa']} (cost {chosen['cost']}), but cost {trials[best]['cost']} was obtained with kappa={trials[best]['kappa']}; costs={[(t['kappa'], t['cost']) for t in trials]} :: {what}")
    elif got_centres != chosen["centres"]:
        ctx.violation("final_layout_differs", f"returned layout differs from the layout of the trial with the same kappa={final['kappa']} :: {what}")
    dcost = final["cost"]
    if isinstance(dcost, float) and abs(dcost - chosen["cost"]) > tol:
        ctx.violation("final_cost_differs", f"returned layout has cost {dcost}, its trial had {chosen['cost']} :: {what}")
