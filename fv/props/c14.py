"""C14 - Spectral placement keeps every module's disc inside the die.

Monitor: an icontract postcondition attached (from the harness) to the real spectral_layout_die, at the
name Spectral.spectral_layout looks it up, judges EVERY trial (not only the best one); an end-to-end
check on the module objects judges the final result.  Real seeds only (random.seed(k))."""
import math
import random

ID = "C14"
RULE = ("connected netlists (spanning chain + random nets of arity 2-4, weights 0.1-100) with >=4 movable modules whose discs fit (radius <= 0.3 x min die side), mixes of soft / hard (1-2 rectangles) / fixed; "
        "die shapes 1:1..25:1, sizes 1..1000; nfloorplans in {1,3,5}; start vectors only from real seeds; non-trivial = every case (>=4 movable modules); distinct = distinct (netlist, die, seed, trials)")
ASSUMPTIONS = [
    "every module is on some net and the netlist is connected; terminals appear only as fixed terminals (fixed modules without rectangles); movable zero-area nodes are outside the quantifier",
    "containment judged with slack 1e-9 x die size; fixed coordinates with 1e-9 x die size (the code re-centres by (c-h)+h)",
    "only start vectors an actual seed produces are used (a hand-made degenerate start would be a false alarm by construction); with nfloorplans = 0 the given initial centres are generic (random positions to four significant digits): a start in which all movable modules share an x or a y coordinate has no direction to iterate from and divides by zero, at every scale (the thorough tier met it when centres rounded to 3 decimals all became 0.0 on a die of 1e-4 units)",
]
CASES = {"quick": 480, "thorough": 20000}
MIN_CASES = {"quick": 60, "thorough": 1500}
REQUIRED_COUNTERS = ["soft_modules_with_per_region_areas", "laid_out_again_in_a_smaller_die", "trials_judged_by_contract", "layouts_judged", "movable_discs_checked", "fixed_modules_checked", "fixed_terminals_checked", "hard_modules_checked", "layouts_after_earlier_queries", "nets_compared_with_document"]
REQUIRED_CLASSES = ["fixed0", "fixed1"]
SOFT_DEADLINE = {"quick": 200, "thorough": 3300}

_state = {"trials": []}
_Spectral = None
_Shape = None


class PostBroken(Exception):
    pass


def _record_trial(adj, mass, size, initial, fixed, result):
    """icontract postcondition: records, never raises"""
    coord = result[0]
    _state["trials"].append({"coord": [list(c) for c in coord], "mass": list(mass), "size": list(size),
                             "initial": [list(v) for v in initial], "fixed": list(fixed)})
    return True


def setup(ctx):
    global _Spectral, _Shape
    import tools.spectral.spectral as sp
    from frame.geometry.geometry import Shape
    try:
        import icontract
        wrapped = icontract.ensure(_record_trial, error=PostBroken)(sp.spectral_layout_die)
        ctx.extra["contract_library"] = "icontract " + getattr(icontract, "__version__", "?")
    except ImportError:       # fall back to a plain wrapper with the same observation
        orig = sp.spectral_layout_die

        def wrapped(adj, mass, size, initial, fixed):
            res = orig(adj, mass, size, initial, fixed)
            _record_trial(adj, mass, size, initial, fixed, res)
            return res
        ctx.extra["contract_library"] = "plain wrapper (icontract unavailable)"
    sp.spectral_layout_die = wrapped      # the name Spectral.spectral_layout resolves at call time
    _Spectral, _Shape = sp.Spectral, Shape


def generate(rng, tier, i):
    aspect = rng.choice([1, 1, 2, 4, 10, 25])
    base = rng.choice([1.0, 10.0, 100.0, 1000.0, 2.5, 0.1])
    if rng.random() < 0.08:
        base = rng.choice([1e8, 1e9, 3e9, 1e-4])       # dies in database units (nanometres) or in metres
    W, H = (base * aspect, base) if rng.random() < 0.5 else (base, base * aspect)
    m = min(W, H)
    nmov = rng.randint(4, 9)
    nfix = rng.choice([0, 0, 1, 2])
    mods = {}
    big = rng.randrange(nmov) if rng.random() < 0.15 else -1
    for k in range(nmov):
        r = rng.uniform(0.02, 0.3) * m if rng.random() < 0.8 else 0.3 * m
        if k == big:
            r = rng.uniform(0.46, 0.499) * m      # the disc still fits, with almost no room to move along the shorter side
        area = math.pi * r * r * 0.999
        if rng.random() < 0.65:
            mods[f"S{k}"] = {"area": float(f"{area:.6g}")}
            if rng.random() < 0.25:
                a_ = mods[f"S{k}"]["area"]
                f_ = rng.choice([0.2, 0.5, 0.75])
                mods[f"S{k}"]["area"] = {"_": float(f"{a_ * f_:.6g}"), rng.choice(["DSP", "BRAM", "LUT"]): float(f"{a_ * (1 - f_):.6g}")}
            if rng.random() < 0.3:
                mods[f"S{k}"]["center"] = [float(f"{rng.uniform(0, W):.4g}"), float(f"{rng.uniform(0, H):.4g}")]
        else:
            # hard module: one or two abutting rectangles with that total area (roughly)
            s = math.sqrt(area)
            # abutting rectangles are derived from already-rounded values (rounding each number separately would open
            # gaps / overlaps of 1e-8 relative, which at coordinates of 1e4 exceeds the reader's area tolerance); in database
            # units (dies of 1e8 and more) every number is a multiple of 4, so that all sums and halves are exact
            if m >= 1e6:
                def q(v):
                    return float(max(4, round(v / 4) * 4))
                cx, cy = float(round(rng.uniform(s, W + s))), float(round(rng.uniform(s, H + s)))
            else:
                def q(v):
                    return float(f"{v:.5g}")
                cx, cy = float(f"{rng.uniform(s, W + s):.5g}"), float(f"{rng.uniform(s, H + s):.5g}")
            s = q(s)
            h1, h2 = q(s * 0.6), q(s * 0.2)
            if rng.random() < 0.5:
                rects = [[cx, cy, s, q(s * 0.8)]]
            else:
                rects = [[cx, cy, s, h1], [cx, cy + h1 / 2 + h2 / 2, q(s * 0.5), h2]]
            mods[f"H{k}"] = {"hard": True, "rectangles": rects}
    for k in range(nfix):
        w, h = rng.uniform(0.05, 0.2) * W, rng.uniform(0.05, 0.2) * H
        cx, cy = rng.uniform(w / 2, W - w / 2), rng.uniform(h / 2, H - h / 2)
        mods[f"F{k}"] = {"fixed": True, "rectangles": [[float(f"{v:.6g}") for v in (cx, cy, w, h)]]}
    for k in range(rng.choice([0, 0, 1, 2])):
        # fixed terminals (I/O pins): fixed modules without rectangles, kept where they are
        mods[f"T{k}"] = {"terminal": True, "fixed": True, "center": [float(f"{rng.choice([0.0, W, rng.uniform(0, W)]):.6g}"), float(f"{rng.uniform(0, H):.6g}")]}
    names = list(mods)
    rng.shuffle(names)
    nets = []
    for a, b in zip(names, names[1:]):        # spanning chain: connected
        e = [a, b]
        if rng.random() < 0.5:
            e.append(rng.choice([0.1, 0.5, 2, 10, 100, 3.3]))
        nets.append(e)
    for _ in range(rng.randint(0, 6)):
        e = rng.sample(names, rng.randint(2, min(4, len(names))))
        if rng.random() < 0.5:
            e.append(rng.choice([0.1, 0.5, 2, 10, 100, 1]))
        nets.append(e)
    order = list(mods)
    rng.shuffle(order)
    n = rng.choice([1, 1, 3, 5])
    if rng.random() < 0.15:
        # nfloorplans = 0: 'use the initial centres' (every module needs one); the discs must still end inside the die
        n = 0
        for name, m in mods.items():
            if "area" in m and "center" not in m:
                m["center"] = [float(f"{rng.uniform(0, W):.4g}"), float(f"{rng.uniform(0, H):.4g}")]
    again = None
    if n > 0 and not any(m.get("fixed") for m in mods.values()) and rng.random() < 0.85:
        rmax = max(math.sqrt(((sum(m["area"].values()) if isinstance(m["area"], dict) else m["area"]) if "area" in m else sum(r[2] * r[3] for r in m["rectangles"])) / math.pi) for m in mods.values())
        f, g = rng.choice([[0.5, 1.0], [1.0, 0.5], [0.7, 0.8], [0.6, 0.6], [1.0, 1.0]])
        if min(W * f, H * g) >= 2.3 * rmax:
            again = [f, g]
    return {"again": again, "cls": f"fixed{min(nfix, 1)}" + ("_init" if n == 0 else ""), "W": W, "H": H, "netlist": {"Modules": {k: mods[k] for k in order}, "Nets": nets},
            "n": n, "pyseed": rng.randrange(1 << 30), "query_first": rng.random() < 0.3}


# found after widening the die sizes (round-11 seeds): the orthogonality sanity assertion measured a unit-dependent residual and
# tripped on rounding noise for dies of about 1e-4 units (repaired in /repo)
DIRECTED_SMALL_UNITS = {'again': None, 'cls': 'directed_small_units', 'W': 0.0002, 'H': 0.0001, 'netlist': {'Modules': {'S0': {'area': 1.64368e-09}, 'S4': {'area': 9.894e-10}, 'F1': {'fixed': True, 'rectangles': [[0.000138582, 3.48203e-05, 2.0788e-05, 6.93214e-06]]}, 'S3': {'area': 1.00005e-10, 'center': [0.0, 0.0]}, 'S2': {'area': 7.68967e-09}, 'F0': {'fixed': True, 'rectangles': [[9.01894e-05, 5.04326e-05, 2.0485e-05, 1.32968e-05]]}, 'S1': {'area': 1.24406e-10}}, 'Nets': [['S0', 'S3'], ['S3', 'S4', 10], ['S4', 'F1'], ['F1', 'F0', 3.3], ['F0', 'S1', 100], ['S1', 'S2', 10], ['S4', 'S3', 10], ['S0', 'F1'], ['S0', 'S2', 2], ['S3', 'S4', 'S2', 10]]}, 'n': 1, 'pyseed': 981699554, 'query_first': True}


def directed():
    # found by the thorough tier: the orthogonality sanity assertion tripped on rounding noise (repaired in /repo)
    return [DIRECTED_SMALL_UNITS, {'cls': 'fixed0', 'W': 1000.0, 'H': 1000.0, 'netlist': {'Modules': {'S2': {'area': 15997.2}, 'H1': {'hard': True, 'rectangles': [[323.917, 1153.211, 278.7, 167.22], [323.917, 1264.6909999999998, 139.35, 55.74]]}, 'S0': {'area': 282461.0}, 'S3': {'area': 282461.0}}, 'Nets': [['S0', 'S3', 100], ['S3', 'S2', 0.5], ['S2', 'H1', 100]]}, 'n': 5, 'pyseed': 377064497}, {'cls': 'fixed1', 'W': 25000.0, 'H': 1000.0, 'netlist': {'Modules': {'F1': {'fixed': True, 'rectangles': [[13875.5, 521.043, 4942.32, 81.8807]]}, 'S2': {'area': 51359.5, 'center': [24021.968, 944.237]}, 'F0': {'fixed': True, 'rectangles': [[22830.4, 94.7716, 2646.51, 180.784]]}, 'H1': {'hard': True, 'rectangles': [[20962.409, 1155.36, 531.47, 425.18]]}, 'H3': {'hard': True, 'rectangles': [[11957.106, 1003.374, 531.47, 318.88], [11957.106, 1215.959, 265.74, 106.29]]}, 'S0': {'area': 75325.0}}, 'Nets': [['F1', 'S0'], ['S0', 'F0', 100], ['F0', 'H3', 3.3], ['H3', 'S2', 100], ['S2', 'H1'], ['H3', 'F1', 'F0', 2], ['S2', 'H3', 'F0', 'F1', 1], ['F1', 'H3', 1], ['S2', 'F0'], ['S2', 'S0']]}, 'n': 5, 'pyseed': 355387198}, {'cls': 'fixed0', 'W': 62.5, 'H': 2.5, 'netlist': {'Modules': {'S1': {'area': 0.277866}, 'H0': {'hard': True, 'rectangles': [[52.047, 2.56, 0.47553, 0.38042]]}, 'S2': {'area': 0.0203532, 'center': [11.739, 0.501]}, 'S3': {'area': 0.755739}}, 'Nets': [['S2', 'H0'], ['H0', 'S3', 0.1], ['S3', 'S1', 10]]}, 'n': 1, 'pyseed': 120647745}]


def centroid(rects):
    a = sum(r.area for r in rects)
    return sum(r.center.x * r.area for r in rects) / a, sum(r.center.y * r.area for r in rects) / a


def check(case, ctx):
    from frame.geometry.geometry import Rectangle
    from fv import netutil as nu
    W, H = case["W"], case["H"]
    Rectangle.undefine_epsilon()
    ok, sp = ctx.call(_Spectral, case["netlist"])
    if not ok:
        ctx.violation("load_raised", f"Spectral(netlist) raised {type(sp).__name__}: {str(sp)[:200]} :: {case['netlist']}")
        return
    before = nu.summary(sp)
    want_nets = []
    for e in case["netlist"]["Nets"]:
        e = list(e)
        w = float(e.pop()) if not isinstance(e[-1], str) else 1.0
        want_nets.append({"members": e, "weight": w})
    ctx.count("nets_compared_with_document")
    if before["nets"] != want_nets:
        ctx.violation("nets_changed", f"building the spectral netlist changed the nets: document {want_nets}, object {before['nets']}")
    pre = {}
    for m in sp.modules:
        if m.is_hard and m.num_rectangles > 0:
            cx, cy = centroid(m.rectangles)
            pre[m.name] = {"centroid": (cx, cy), "offs": [(r.center.x - cx, r.center.y - cy, r.shape.w, r.shape.h) for r in m.rectangles]}
    if case.get("query_first"):
        # a legitimate earlier use of the netlist (must not influence the placement)
        ctx.call(lambda: (sp.num_rectangles, [m.area() for m in sp.modules], sp.num_edges))
        ctx.count("layouts_after_earlier_queries")
    doc_area = {}
    for name_, mm in case["netlist"]["Modules"].items():
        if "area" in mm:
            doc_area[name_] = float(sum(mm["area"].values())) if isinstance(mm["area"], dict) else float(mm["area"])
            if isinstance(mm["area"], dict):
                ctx.count("soft_modules_with_per_region_areas")
        elif "rectangles" in mm:
            rs_ = mm["rectangles"] if not isinstance(mm["rectangles"][0], (int, float)) else [mm["rectangles"]]
            doc_area[name_] = float(sum(r[2] * r[3] for r in rs_))
        else:
            doc_area[name_] = 0.0
    for m in sp.modules:
        if abs(m.area() - doc_area[m.name]) > 1e-9 * max(doc_area[m.name], 1e-300):
            ctx.violation("area_differs_from_document", f"module {m.name}: the document gives area {doc_area[m.name]}, the loaded module reports {m.area()}")
    dies = [(W, H, "")]
    if case.get("again"):
        dies.append((W * case["again"][0], H * case["again"][1], "second layout of the same object, now in a smaller die: "))
    for (W, H, tag) in dies:
        if tag:
            ctx.count("laid_out_again_in_a_smaller_die")
        _state["trials"] = []
        random.seed(case["pyseed"])
        ok, res = ctx.call(sp.spectral_layout, _Shape(W, H), case["n"], False)
        what = f"{tag}W={W} H={H} n={case['n']} seed={case['pyseed']} netlist={case['netlist']}"
        if not ok:
            ctx.violation("layout_raised", f"spectral_layout raised {type(res).__name__}: {str(res)[:200]} on an admissible input :: {what}")
            return
        ctx.nontrivial(True)
        # ---- every trial, as seen by the contract on spectral_layout_die ---------------------------
        if len(_state["trials"]) != max(case["n"], 1):
            ctx.violation("trial_count", f"{len(_state['trials'])} trials observed, {case['n']} requested")
        for t in _state["trials"]:
            ctx.count("trials_judged_by_contract")
            size = t["size"]
            for d in range(2):
                for i, x in enumerate(t["coord"][d]):
                    rad = math.sqrt(t["mass"][i] / math.pi)
                    if t["fixed"][i]:
                        if abs(x - (t["initial"][d][i] - size[d] / 2)) > 1e-9 * size[d]:
                            ctx.violation("trial_fixed_moved", f"trial: fixed node {i} moved from {t['initial'][d][i] - size[d] / 2} to {x} (dim {d}) :: {what}")
                    elif not math.isfinite(x) or abs(x) > size[d] / 2 - rad + 1e-9 * size[d]:
                        ctx.violation("trial_disc_outside", f"trial: node {i} at {x} (dim {d}) with radius {rad} leaves the die of size {size[d]} :: {what}")
        # ---- end to end on the module objects ---------------------------------------------------------
        ctx.count("layouts_judged")
        after = nu.summary(sp)
        for b, a in zip(before["modules"], after["modules"]):
            if b["name"] != a["name"] or b["kind"] != a["kind"] or b["area_regions"] != a["area_regions"] or b["area"] != a["area"] or b["aspect_ratio"] != a["aspect_ratio"]:
                ctx.violation("module_changed", f"module {b['name']}: kind/area changed: {b} -> {a}")
        if want_nets != after["nets"] or len(before["modules"]) != len(after["modules"]):
            ctx.violation("nets_changed", f"nets or module list changed: document {want_nets}, after placement {after['nets']}")
        sx, sy = 1e-9 * W, 1e-9 * H
        for m, b in zip(sp.modules, before["modules"]):
            rad = math.sqrt(doc_area[m.name] / math.pi)          # the area the DOCUMENT gives the module, not what the object reports
            if m.is_fixed:
                ctx.count("fixed_modules_checked")
                if m.is_terminal:
                    ctx.count("fixed_terminals_checked")
                    c0 = b["center"]
                    if m.center is None or abs(m.center.x - c0[0]) > 1e-9 * W or abs(m.center.y - c0[1]) > 1e-9 * H:
                        ctx.violation("fixed_moved", f"fixed terminal {m.name} moved from {c0} to {m.center} :: {what}")
                    continue
                if [nu.rect_tuple(r) for r in m.rectangles] != b["rectangles"]:
                    ctx.violation("fixed_moved", f"fixed module {m.name}: rectangles {b['rectangles']} -> {[nu.rect_tuple(r) for r in m.rectangles]}")
                continue
            if m.is_hard:
                ctx.count("hard_modules_checked")
                cx, cy = centroid(m.rectangles)
                offs = [(r.center.x - cx, r.center.y - cy, r.shape.w, r.shape.h) for r in m.rectangles]
                for o, p in zip(offs, pre[m.name]["offs"]):
                    if abs(o[0] - p[0]) > sx or abs(o[1] - p[1]) > sy or o[2] != p[2] or o[3] != p[3]:
                        ctx.violation("hard_not_rigid", f"hard module {m.name}: rectangle offsets {pre[m.name]['offs']} -> {offs}")
                        break
                px, py = cx, cy
            else:
                if m.center is None:
                    ctx.violation("no_centre", f"soft module {m.name} has no centre after placement")
                    continue
                px, py = m.center.x, m.center.y
            ctx.count("movable_discs_checked")
            if not (math.isfinite(px) and math.isfinite(py)) or px < rad - sx or px > W - rad + sx or py < rad - sy or py > H - rad + sy:
                ctx.violation("disc_outside", f"module {m.name} at ({px},{py}) with radius {rad} leaves the {W}x{H} die :: {what}")
