"""C15 - Grid orthogon decomposition finds exactly the single-trunk decompositions.

Monitor: the real Strop / StropInstance / strop_decomposition are run on (i) ALL 0/1 grids up to a
bounded size, (ii) random larger grids, (iii) vertex polygons traced from polyominoes; an independent
existence test (try every all-ones rectangle as trunk, flood the four side strips) and a structural
partition/abutment check judge every answer."""
from fractions import Fraction as F

from fv.gen import geo

ID = "C15"
# exhaustive shapes per tier (rows, cols)
SHAPES = {
    "quick": [(r, c) for r in range(1, 5) for c in range(1, 5)] + [(3, 5), (5, 3)],
    "thorough": [(r, c) for r in range(1, 5) for c in range(1, 5)] + [(3, 5), (5, 3), (4, 5), (5, 4), (5, 5), (4, 6), (6, 4), (3, 6), (6, 3), (2, 8), (8, 2)],
}
N_EXH = {t: sum(2 ** (r * c) for r, c in SHAPES[t]) for t in SHAPES}
N_RANDOM = {"quick": 12000, "thorough": 600000}
N_POLY = {"quick": 5000, "thorough": 150000}
CASES = {t: N_EXH[t] + N_RANDOM[t] + N_POLY[t] for t in SHAPES}
MIN_CASES = {"quick": N_EXH["quick"], "thorough": N_EXH["quick"]}
EXHAUSTIVE = {t: "all 0/1 grids of the shapes " + ", ".join(f"{r}x{c}" for r, c in SHAPES[t]) + " (only this bounded sub-space; random grids up to 10x10 and vertex polygons are sampled)" for t in SHAPES}
RULE = ("every 0/1 grid of the listed shapes (exhaustive), random grids up to 10x10 biased to near-orthogon shapes / holes / staircases / disconnected patterns, and vertex polygons traced from "
        "random orthogons and hole-free polyominoes (both orientations, rotated start vertex, int/decimal coordinates, Point and ndarray vertices); "
        "non-trivial = grid with >=2 one-cells; distinct = distinct grid / polygon")
ASSUMPTIONS = [
    "exhaustive: true refers to the enumerated grid shapes only",
    "a vertex polygon that is not a single-trunk orthogon must be refused (AssertionError) by strop_decomposition",
    "polygons are simple (no pinch points), given without repeating the first vertex",
    "polygon coordinates are commensurate with the feature size (origin offset <= 10 lattice steps): the reader's tolerance is 1e-12 x the smallest feature, so a dynamic range above ~1e4 drowns it in rounding noise (same root cause as the recorded tolerance findings)",
]
REQUIRED_CLASSES = ["exhaustive", "random_grid", "polygon_stog", "polygon_nonstog"]
REQUIRED_COUNTERS = ["vertex_buffers_edited_in_place_and_decomposed_again", "vertices_as_one_2d_buffer", "existence_compared", "instances_checked", "polygons_decomposed", "polygons_refused", "module_recognition_checked"]
SOFT_DEADLINE = {"quick": 240, "thorough": 5400}
WATCHDOG = {"quick": 900, "thorough": 9000}

_Strop = _decomp = _Point = _np = _Netlist = _Rect = None


def setup(ctx):
    global _Strop, _decomp, _Point, _np, _Netlist, _Rect
    from tools.floorset_parser.floor_set_manager.strop import Strop
    from tools.floorset_parser.floor_set_manager.utils.utils import strop_decomposition
    from frame.geometry.geometry import Point, Rectangle
    from frame.netlist.netlist import Netlist
    import numpy
    _Strop, _decomp, _Point, _np, _Netlist, _Rect = Strop, strop_decomposition, Point, numpy, Netlist, Rectangle


# ---------------------------------------------------------------------------------------------
def _decode(tier, i):
    for (r, c) in SHAPES[tier]:
        n = 2 ** (r * c)
        if i < n:
            return r, c, i
        i -= n
    raise IndexError


def _stog_cells(rng, R, C):
    """cells of a random single-trunk orthogon inside an RxC grid"""
    r0 = rng.randint(0, R - 1)
    r1 = rng.randint(r0, R - 1)
    c0 = rng.randint(0, C - 1)
    c1 = rng.randint(c0, C - 1)
    cells = {(r, c) for r in range(r0, r1 + 1) for c in range(c0, c1 + 1)}
    for c in range(c0, c1 + 1):
        if rng.random() < 0.5:
            h = rng.randint(0, r0)
            if rng.random() < 0.5 and (r0 - 1, c - 1) in cells:   # continue the neighbour's height -> wider branch
                h = max(k for k in range(0, r0 + 1) if all((r0 - j, c - 1) in cells for j in range(1, k + 1)))
            cells |= {(r0 - j, c) for j in range(1, h + 1)}
        if rng.random() < 0.5:
            h = rng.randint(0, R - 1 - r1)
            cells |= {(r1 + j, c) for j in range(1, h + 1)}
    for r in range(r0, r1 + 1):
        if rng.random() < 0.5:
            w = rng.randint(0, c0)
            cells |= {(r, c0 - j) for j in range(1, w + 1)}
        if rng.random() < 0.5:
            w = rng.randint(0, C - 1 - c1)
            cells |= {(r, c1 + j) for j in range(1, w + 1)}
    return cells


def _polyomino(rng, R, C):
    n = rng.randint(1, max(1, R * C // 2))
    cells = {(rng.randrange(R), rng.randrange(C))}
    while len(cells) < n:
        r, c = rng.choice(sorted(cells))
        dr, dc = rng.choice([(0, 1), (1, 0), (0, -1), (-1, 0)])
        if 0 <= r + dr < R and 0 <= c + dc < C:
            cells.add((r + dr, c + dc))
    return cells


def _grid_str(cells, R, C):
    return " ".join("".join("1" if (r, c) in cells else "0" for c in range(C)) for r in range(R))


def generate(rng, tier, i):
    if i < N_EXH[tier]:
        r, c, code = _decode(tier, i)
        rows = ["".join("1" if (code >> (k * c + j)) & 1 else "0" for j in range(c)) for k in range(r)]
        return {"cls": "exhaustive", "grid": " ".join(rows)}
    i -= N_EXH[tier]
    if i < N_RANDOM[tier]:
        R, C = rng.randint(2, 10), rng.randint(2, 10)
        kind = rng.choice(["stog", "stog_flip", "stog_flip", "polyomino", "random", "hole", "staircase", "two_blobs"])
        if kind.startswith("stog"):
            cells = _stog_cells(rng, R, C)
            if kind == "stog_flip":
                for _ in range(rng.randint(1, 2)):
                    p = (rng.randrange(R), rng.randrange(C))
                    cells ^= {p}
        elif kind == "polyomino":
            cells = _polyomino(rng, R, C)
        elif kind == "hole":
            cells = _stog_cells(rng, R, C)
            inner = sorted(cells)
            if inner:
                cells -= {rng.choice(inner)}
        elif kind == "staircase":
            cells = {(r, c) for r in range(R) for c in range(C) if c <= r * C // R + rng.choice([0, 0, 1])}
        elif kind == "two_blobs":
            cells = _stog_cells(rng, R, max(1, C // 2)) | {(r, c + C // 2 + 1) for (r, c) in _stog_cells(rng, R, max(1, C - C // 2 - 1)) if c + C // 2 + 1 < C}
        else:
            p = rng.random()
            cells = {(r, c) for r in range(R) for c in range(C) if rng.random() < p}
        hw = None
        if rng.random() < 0.3:
            hw = [[rng.choice([1, 2, 0.5, 0.1]) for _ in range(R)], [rng.choice([1, 3, 0.25, 0.7]) for _ in range(C)]]
        return {"cls": "random_grid", "grid": _grid_str(cells, R, C), "kind": kind, "hw": hw}
    # vertex polygons
    R, C = rng.randint(1, 7), rng.randint(1, 7)
    want_stog = rng.random() < 0.6
    for _ in range(30):
        cells = _stog_cells(rng, R, C) if want_stog else _polyomino(rng, R, C)
        v = trace_outline(cells)
        if v is None:
            continue
        is_stog = ref_exists(cells, *_bbox_dims(cells))
        if want_stog == is_stog:
            break
    else:
        cells = {(0, 0)}
        v = trace_outline(cells)
        is_stog = True
    fam = geo.pick_family(rng)
    if fam == "float53":
        fam = "dec_0.1"
    step = geo.FAMILIES[fam]
    xs = geo.make_axis(rng, fam, C + 1, origin=step * rng.choice([0, 3, 10]))
    ys = geo.make_axis(rng, fam, R + 1, origin=step * rng.choice([0, 2, 7]))
    # row 0 is the top row: y index = R - r
    pts = [[geo.fl(xs[c]), geo.fl(ys[R - r])] for (r, c) in v]
    if rng.random() < 0.5:
        pts.reverse()
    k = rng.randrange(len(pts))
    pts = pts[k:] + pts[:k]
    return {"cls": "polygon_stog" if is_stog else "polygon_nonstog", "vertices": pts, "as": rng.choice(["point", "ndarray"]), "cells": len(cells)}


def directed():
    return [
        {"cls": "random_grid", "grid": "0110 0110 1111 1111 0110", "kind": "doc_example", "hw": None},
        {"cls": "random_grid", "grid": "110 011 001", "kind": "doc_counterexample", "hw": None},
    ]


# ---------------------------------------------------------------------------------------------
# independent oracles
# ---------------------------------------------------------------------------------------------
def _bbox_dims(cells):
    return max(r for r, _ in cells) + 1, max(c for _, c in cells) + 1


def ref_exists(cells, R, C) -> bool:
    """try EVERY all-ones rectangle as trunk and flood the four side strips (no pruning)"""
    if not cells:
        return False
    n = len(cells)
    rs = sorted({r for r, _ in cells})
    for r0 in range(R):
        for r1 in range(r0, R):
            for c0 in range(C):
                for c1 in range(c0, C):
                    size = (r1 - r0 + 1) * (c1 - c0 + 1)
                    if size > n:
                        break
                    if any((r, c) not in cells for r in range(r0, r1 + 1) for c in range(c0, c1 + 1)):
                        break     # widening further keeps the hole
                    tot = size
                    for c in range(c0, c1 + 1):
                        r = r0 - 1
                        while r >= 0 and (r, c) in cells:
                            tot += 1
                            r -= 1
                        r = r1 + 1
                        while r < R and (r, c) in cells:
                            tot += 1
                            r += 1
                    for r in range(r0, r1 + 1):
                        c = c0 - 1
                        while c >= 0 and (r, c) in cells:
                            tot += 1
                            c -= 1
                        c = c1 + 1
                        while c < C and (r, c) in cells:
                            tot += 1
                            c += 1
                    if tot == n:
                        return True
    return False


def instance_problems(inst, cells) -> list[str]:
    rects = list(inst.rectangles())
    if not rects:
        return ["no rectangles"]
    t = inst.trunk()
    if rects[0] != t:
        return ["trunk is not the first rectangle offered"]
    cover = {}
    out = []
    for k, q in enumerate(rects):
        if q.rows.low > q.rows.high or q.columns.low > q.columns.high or q.rows.low < 0 or q.columns.low < 0:
            out.append(f"rectangle {k} is empty or malformed: {q}")
            continue
        for r in range(q.rows.low, q.rows.high + 1):
            for c in range(q.columns.low, q.columns.high + 1):
                if (r, c) in cover:
                    out.append(f"cell {(r, c)} covered by rectangles {cover[(r, c)]} and {k}")
                cover[(r, c)] = k
    if set(cover) != cells:
        out.append(f"rectangles cover {len(cover)} cells, polygon has {len(cells)} (difference {sorted(set(cover) ^ cells)[:6]})")
    sides = {"N": list(inst.rectangles("N")), "S": list(inst.rectangles("S")), "E": list(inst.rectangles("E")), "W": list(inst.rectangles("W"))}
    if 1 + sum(len(v) for v in sides.values()) != len(rects):
        out.append("rectangles('') is not trunk + N + S + E + W")
    for q in sides["N"]:
        if q.rows.high != t.rows.low - 1 or q.columns.low < t.columns.low or q.columns.high > t.columns.high:
            out.append(f"north branch {q} does not abut the trunk {t} within its extent")
    for q in sides["S"]:
        if q.rows.low != t.rows.high + 1 or q.columns.low < t.columns.low or q.columns.high > t.columns.high:
            out.append(f"south branch {q} does not abut the trunk {t} within its extent")
    for q in sides["E"]:
        if q.columns.low != t.columns.high + 1 or q.rows.low < t.rows.low or q.rows.high > t.rows.high:
            out.append(f"east branch {q} does not abut the trunk {t} within its extent")
    for q in sides["W"]:
        if q.columns.high != t.columns.low - 1 or q.rows.low < t.rows.low or q.rows.high > t.rows.high:
            out.append(f"west branch {q} does not abut the trunk {t} within its extent")
    return out[:4]


def trace_outline(cells):
    """vertex list (grid corner coordinates (row, col), counter-clockwise in x/y terms unknown - either is fine)
    of a hole-free, pinch-free, 4-connected cell set; None if the set is not such a shape"""
    if not cells:
        return None
    # connectivity
    start = next(iter(cells))
    seen, stack = {start}, [start]
    while stack:
        r, c = stack.pop()
        for d in ((0, 1), (1, 0), (0, -1), (-1, 0)):
            q = (r + d[0], c + d[1])
            if q in cells and q not in seen:
                seen.add(q)
                stack.append(q)
    if seen != cells:
        return None
    # directed boundary edges between grid corners, cell on the right-hand side when walking
    nxt = {}
    for (r, c) in cells:
        if (r - 1, c) not in cells:
            e = ((r, c), (r, c + 1))
            if e[0] in nxt:
                return None
            nxt[e[0]] = e[1]
        if (r, c + 1) not in cells:
            e = ((r, c + 1), (r + 1, c + 1))
            if e[0] in nxt:
                return None
            nxt[e[0]] = e[1]
        if (r + 1, c) not in cells:
            e = ((r + 1, c + 1), (r + 1, c))
            if e[0] in nxt:
                return None
            nxt[e[0]] = e[1]
        if (r, c - 1) not in cells:
            e = ((r + 1, c), (r, c))
            if e[0] in nxt:
                return None
            nxt[e[0]] = e[1]
    p0 = min(nxt)
    path, p = [p0], nxt[p0]
    while p != p0:
        path.append(p)
        p = nxt[p]
        if len(path) > len(nxt) + 1:
            return None
    if len(path) != len(nxt):
        return None            # more than one cycle: a hole
    # drop collinear points
    out = []
    n = len(path)
    for k in range(n):
        a, b, c_ = path[k - 1], path[k], path[(k + 1) % n]
        if (a[0] == b[0] == c_[0]) or (a[1] == b[1] == c_[1]):
            continue
        out.append(b)
    return out


def shoelace(pts):
    s = F(0)
    n = len(pts)
    for k in range(n):
        x1, y1 = F(pts[k][0]), F(pts[k][1])
        x2, y2 = F(pts[(k + 1) % n][0]), F(pts[(k + 1) % n][1])
        s += x1 * y2 - x2 * y1
    return abs(s) / 2


# ---------------------------------------------------------------------------------------------
def check_grid(case, ctx):
    rows = case["grid"].split()
    R, C = len(rows), len(rows[0])
    cells = {(r, c) for r in range(R) for c in range(C) if rows[r][c] == "1"}
    ctx.nontrivial(len(cells) >= 2)
    hw = case.get("hw")
    ok, s = ctx.call(_Strop, case["grid"], *(hw if hw else ()))
    if not ok:
        ctx.violation("strop_raised", f"Strop({case['grid']!r}) raised {type(s).__name__}: {s}")
        return
    want = ref_exists(cells, R, C)
    ctx.count("existence_compared")
    ctx.count("grids_with_decomposition" if want else "grids_without_decomposition")
    if bool(s.is_strop) != want:
        ctx.violation("existence", f"is_strop={s.is_strop} but a single-trunk decomposition {'exists' if want else 'does not exist'} for grid {case['grid']!r}")
        return
    for inst in s.instances():
        ctx.count("instances_checked")
        if not inst.valid():
            ctx.violation("invalid_instance_offered", f"an invalid instance is offered for {case['grid']!r}")
            continue
        pr = instance_problems(inst, cells)
        if pr:
            ctx.violation("bad_instance", f"grid {case['grid']!r}: {pr}")


def check(case, ctx):
    if "grid" in case:
        return check_grid(case, ctx)
    pts = case["vertices"]
    ctx.nontrivial(case["cells"] >= 2)
    verts = [_Point(p[0], p[1]) for p in pts] if case["as"] == "point" else [_np.array(p, dtype=float) for p in pts]
    if case["as"] == "ndarray" and len(pts) % 2 == 0 and (len(pts) // 2) % 2 == 0:
        verts = _np.array(pts, dtype=float)          # one 2-D buffer instead of a list of rows
        ctx.count("vertices_as_one_2d_buffer")
    ok, rects = ctx.call(_decomp, verts)
    if case["as"] == "ndarray":
        # the caller's vertex buffer is edited in place (mirrored, stretched, moved) and decomposed again: the answer must be the one
        # a fresh object with the same numbers gets
        mx = max(p[0] for p in pts)
        if isinstance(verts, list):
            for row in verts:
                row[0] = (mx - row[0]) * 2.0
                row[1] = row[1] * 0.5 + 1.0
            fresh = [_np.array([float(r[0]), float(r[1])]) for r in verts]
        else:
            verts[:, 0] = (mx - verts[:, 0]) * 2.0
            verts[:, 1] = verts[:, 1] * 0.5 + 1.0
            fresh = _np.array(verts.tolist(), dtype=float)
        okb, rb = ctx.call(_decomp, verts)
        okf, rf = ctx.call(_decomp, fresh)
        ctx.count("vertex_buffers_edited_in_place_and_decomposed_again")
        if okb != okf or (okb and sorted(map(tuple, rb)) != sorted(map(tuple, rf))) or okb != ok:
            ctx.violation("stale_vertex_buffer", f"polygon {pts} as ndarray, edited in place (x -> 2*({mx}-x), y -> y/2+1): the same buffer gives "
                                                 f"{rb if okb else type(rb).__name__}, a fresh object with the same numbers {rf if okf else type(rf).__name__}, before the edit ok={ok}")
    if case["cls"] == "polygon_nonstog":
        ctx.count("polygons_refused")
        if ok:
            ctx.violation("nonstog_decomposed", f"polygon {pts} has no single-trunk decomposition but one was returned: {rects}")
        return
    if not ok:
        ctx.violation("stog_refused", f"polygon {pts} is a single-trunk orthogon but strop_decomposition raised {type(rects).__name__}: {str(rects)[:200]}")
        return
    ctx.count("polygons_decomposed")
    area = shoelace(pts)
    tot = sum((F(r[2]) * F(r[3]) for r in rects), F(0))
    scale = max(max(abs(p[0]), abs(p[1])) for p in pts)
    if abs(tot - area) > F(1e-9) * F(scale) ** 2:
        ctx.violation("area", f"rectangles {rects} have total area {float(tot)}, polygon {pts} has area {float(area)}")
    from fv.exact import XR
    X = [XR.from_cwh(*r) for r in rects]
    for a in range(len(X)):
        for b in range(a + 1, len(X)):
            if X[a].inter_area(X[b]) > F(1e-9) * F(scale) ** 2:
                ctx.violation("rectangles_overlap", f"rectangles {rects[a]} and {rects[b]} overlap")
    # loaded as a module: recognised as a single-trunk orthogon, trunk first
    _Rect.undefine_epsilon()
    ok, nl = ctx.call(_Netlist, {"Modules": {"M": {"hard": True, "rectangles": [list(r) for r in rects]}}})
    ctx.count("module_recognition_checked")
    if not ok:
        ctx.violation("module_rejected", f"rectangles {rects} of polygon {pts} rejected as a hard module: {type(nl).__name__}: {str(nl)[:200]}")
        return
    m = nl.modules[0]
    roles = [r.location.name for r in m.rectangles]
    if not m.has_stog or roles[0] != "TRUNK" or any(x == "NO_POLYGON" for x in roles):
        ctx.violation("module_not_recognised", f"rectangles {rects} loaded with roles {roles} (has_stog={m.has_stog})")
