"""C16 - Pseudo-Boolean expression algebra preserves integer semantics.

Monitor: every generated expression tree is built with the *real* operator overloads of
tools/rect/pseudobool.py and then interrogated: value of the resulting Expr (constant + sum of
coefficient * literal value) under ALL 2^n assignments vs. direct big-int evaluation of the tree;
structural normal-form check on Expr.t; built Ineq truth vs. direct comparison.
"""
import itertools

ID = "C16"
RULE = ("random typed expression trees (depth<=6, <=8 variables) using only operator forms the classes define; "
        "a case is non-trivial when it has >=2 distinct variables and >=3 operator nodes; distinct = distinct tree (sha256 of the case)")
ASSUMPTIONS = [
    "only operator forms the classes define are generated (Expr has no __radd__/__rsub__, Literal/Term have no __sub__): a TypeError for an undefined form is not a semantic claim",
    "integer multipliers/constants only (the statement is about integer arithmetic); unary minus on a Literal is logical negation (1-x), on a Term arithmetic negation, as the classes define",
]
CASES = {"quick": 300000, "thorough": 10000000}
MIN_CASES = {"quick": 60000, "thorough": 100000}
REQUIRED_COUNTERS = ["augmented_assignments_built", "expr_assignments_checked", "ineq_assignments_checked", "normal_form_checked", "shared_operands_rechecked"]
VARS = ["a", "b", "c", "d", "e", "f", "g", "h"]
OPS = [">=", "<=", ">", "<", "=="]


# ---------------------------------------------------------------------------------------------
# generator: typed trees.  kinds: L literal, T term, E expr, I int, S str
# ---------------------------------------------------------------------------------------------
def _int(rng):
    r = rng.random()
    if r < 0.15:
        return 0
    if r < 0.3:
        return rng.choice([1, -1])
    if r < 0.9:
        return rng.randint(-9, 9)
    return rng.choice([-1000, 1000, 37, -64, 2 ** 40])


def gen_L(rng, vars_, d):
    if d > 0 and rng.random() < 0.25:
        return ["negL", gen_L(rng, vars_, d - 1)]
    return ["lit", rng.choice(vars_), rng.random() < 0.6]


def gen_T(rng, vars_, d):
    r = rng.random()
    if d <= 0 or r < 0.35:
        return ["term", gen_L(rng, vars_, 1), _int(rng)]          # Term(L, k)
    if r < 0.55:
        return ["L*k", gen_L(rng, vars_, 1), _int(rng)]
    if r < 0.7:
        return ["k*L", _int(rng), gen_L(rng, vars_, 1)]
    if r < 0.8:
        return ["T*k", gen_T(rng, vars_, d - 1), _int(rng)]
    if r < 0.9:
        return ["k*T", _int(rng), gen_T(rng, vars_, d - 1)]
    return ["negT", gen_T(rng, vars_, d - 1)]


_POOL = [0]     # number of shared operands available while generating (set by generate)


def gen_X(rng, vars_, d):
    """any addable operand"""
    r = rng.random()
    if _POOL[0] and r < 0.25:
        return ["ref", rng.randrange(_POOL[0])]        # an operand OBJECT that is used more than once
    if r < 0.1:
        return ["str", rng.choice(vars_)]
    if r < 0.3:
        return gen_L(rng, vars_, 1)
    if r < 0.55:
        return gen_T(rng, vars_, min(d, 2))
    if r < 0.7 or d <= 0:
        return ["int", _int(rng)]
    return gen_E(rng, vars_, d - 1)


def gen_E(rng, vars_, d):
    r = rng.random()
    if d <= 0:
        return ["E0+", gen_X(rng, vars_, 0)]                      # Expr() + X
    if r < 0.07:
        # augmented assignment on a name that may be bound to a kept operand object (s = base; s += x): base must keep its value
        kind = rng.choice(["E+=", "E+=", "E-=", "E*=k"])
        # (a kept operand may be a literal or a term, for which only '+' is defined)
        left = ["ref", rng.randrange(_POOL[0])] if _POOL[0] and kind == "E+=" and rng.random() < 0.7 else gen_E(rng, vars_, d - 1)
        return [kind, left, _int(rng)] if kind == "E*=k" else [kind, left, gen_X(rng, vars_, d - 1)]
    if r < 0.3:
        return ["E+", gen_E(rng, vars_, d - 1), gen_X(rng, vars_, d - 1)]
    if r < 0.55:
        return ["E-", gen_E(rng, vars_, d - 1), gen_X(rng, vars_, d - 1)]
    if r < 0.67:
        return ["E*k", gen_E(rng, vars_, d - 1), _int(rng)]
    if r < 0.77:
        return ["k*E", _int(rng), gen_E(rng, vars_, d - 1)]
    if r < 0.83:
        return ["L+", gen_L(rng, vars_, 1), gen_X(rng, vars_, d - 1)]
    if r < 0.88:
        return ["T+", gen_T(rng, vars_, 2), gen_X(rng, vars_, d - 1)]
    if r < 0.92:
        return ["i+L", _int(rng), gen_L(rng, vars_, 1)]
    if r < 0.96:
        return ["i+T", _int(rng), gen_T(rng, vars_, 2)]
    # forced cancellation: e + t - t   /   c*x - c*x
    t = gen_T(rng, vars_, 1)
    return ["E-", ["E+", gen_E(rng, vars_, d - 1), t], t]


def generate(rng, tier, i):
    nv = rng.choice([1, 2, 2, 3, 3, 4, 5, 6, 8])
    vars_ = VARS[:nv]
    depth = rng.choice([1, 2, 3, 3, 4, 4, 5, 6])
    r = rng.random()
    # a pool of operand objects that are built once and used several times (callers keep and reuse terms / expressions)
    _POOL[0] = 0
    pool = []
    if rng.random() < 0.5:
        for _ in range(rng.randint(1, 3)):
            k = rng.random()
            pool.append(gen_T(rng, vars_, 2) if k < 0.6 else gen_L(rng, vars_, 1) if k < 0.75 else gen_E(rng, vars_, 2))
        _POOL[0] = len(pool)
    if r < 0.45:
        case = {"cls": "expr_shared" if pool else "expr", "vars": vars_, "tree": gen_E(rng, vars_, depth), "pool": pool}
        _POOL[0] = 0
        return case
    lk = rng.random()
    if lk < 0.6:
        left = gen_E(rng, vars_, depth)
        lkind = "E"
    elif lk < 0.8:
        left, lkind = gen_L(rng, vars_, 1), "L"
    else:
        left, lkind = gen_T(rng, vars_, 2), "T"
    right = gen_X(rng, vars_, depth - 1)
    if pool and rng.random() < 0.4:
        # a kept operand object is compared directly (e >= 0, e == 0, t < e, ...) and used again afterwards
        k = rng.randrange(len(pool))
        left, lkind = ["ref", k], {"lit": "L", "negL": "L"}.get(pool[k][0], "T" if pool[k][0] in ("term", "L*k", "k*L", "T*k", "k*T", "negT") else "E")
        if rng.random() < 0.6:
            right = rng.choice([["int", 0], ["int", 0], ["E0+", ["int", 0]], ["int", _int(rng)]])
    op = rng.choice(OPS)
    _POOL[0] = 0
    if right[0] == "int" and lkind == "E" and rng.random() < 0.3:
        return {"cls": "ineq_reflected", "vars": vars_, "left": right, "op": op, "right": left, "pool": pool}
    return {"cls": "ineq_" + lkind + ("_shared" if pool else ""), "vars": vars_, "left": left, "op": op, "right": right, "pool": pool}


def directed():
    # witnesses of the defect fixed in /repo (Expr.__mul__ did not scale the constant)
    a = ["lit", "a", True]
    return [
        {"cls": "directed_mul_const", "vars": ["a"], "tree": ["k*E", 2, ["E+", ["E0+", a], ["int", 3]]]},
        {"cls": "directed_mul_const", "vars": ["a"], "tree": ["E*k", ["E+", ["E0+", a], ["int", 3]], -1]},
        {"cls": "directed_mul_const", "vars": ["a", "b"], "left": ["k*E", 3, ["E-", ["E0+", a], ["int", 2]]],
         "op": ">=", "right": ["lit", "b", False]},
    ]


# ---------------------------------------------------------------------------------------------
# build with the real classes / evaluate directly
# ---------------------------------------------------------------------------------------------
_pb = None


def setup(ctx):
    global _pb
    from tools.rect import pseudobool as pb
    _pb = pb


_augmented = [0]
_pool_objs: list = []
_pool_trees: list = []


def build(t):
    pb = _pb
    k = t[0]
    if k == "ref":
        return _pool_objs[t[1]]
    if k == "lit":
        return pb.Literal(t[1], t[2])
    if k == "negL":
        return -build(t[1])
    if k == "term":
        return pb.Term(build(t[1]), t[2])
    if k == "L*k":
        return build(t[1]) * t[2]
    if k == "k*L":
        return t[1] * build(t[2])
    if k == "T*k":
        return build(t[1]) * t[2]
    if k == "k*T":
        return t[1] * build(t[2])
    if k == "negT":
        return -build(t[1])
    if k == "str":
        return t[1]
    if k == "int":
        return t[1]
    if k == "E0+":
        return pb.Expr() + build(t[1])
    if k in ("E+=", "E-=", "E*=k"):
        _augmented[0] += 1
        acc = build(t[1])
        other = t[2] if k == "E*=k" else build(t[2])
        if isinstance(acc, (str, int)) and isinstance(other, (str, int)):
            acc = pb.Expr() + acc
        if k == "E+=":
            acc += other
        elif k == "E-=":
            acc -= other
        else:
            acc *= other
        return acc
    if k == "E+":
        return build(t[1]) + build(t[2])
    if k == "E-":
        return build(t[1]) - build(t[2])
    if k == "E*k":
        return build(t[1]) * t[2]
    if k == "k*E":
        return t[1] * build(t[2])
    if k in ("L+", "T+"):
        return build(t[1]) + build(t[2])
    if k in ("i+L", "i+T"):
        return t[1] + build(t[2])
    raise ValueError(k)


def ev(t, asg):
    """direct integer evaluation of the tree"""
    k = t[0]
    if k == "ref":
        return ev(_pool_trees[t[1]], asg)
    if k == "lit":
        v = asg[t[1]]
        return v if t[2] else 1 - v
    if k == "negL":
        return 1 - ev(t[1], asg)
    if k in ("term", "L*k", "T*k", "E*k", "E*=k"):
        return ev(t[1], asg) * t[2]
    if k in ("k*L", "k*T", "k*E"):
        return t[1] * ev(t[2], asg)
    if k == "negT":
        return -ev(t[1], asg)
    if k == "str":
        return asg[t[1]]
    if k == "int":
        return t[1]
    if k == "E0+":
        return ev(t[1], asg)
    if k in ("E+", "L+", "T+", "E+="):
        return ev(t[1], asg) + ev(t[2], asg)
    if k in ("E-", "E-="):
        return ev(t[1], asg) - ev(t[2], asg)
    if k in ("i+L", "i+T"):
        return t[1] + ev(t[2], asg)
    raise ValueError(k)


def nodes(t):
    return 1 + sum(nodes(x) for x in t[1:] if isinstance(x, list))


def used_vars(t, acc):
    if t[0] == "ref":
        return used_vars(_pool_trees[t[1]], acc)
    if t[0] in ("lit", "str"):
        acc.add(t[1])
    for x in t[1:]:
        if isinstance(x, list):
            used_vars(x, acc)
    return acc


def expr_value(e, asg):
    s = e.c
    for key, term in e.t.items():
        v = asg[term.L.v]
        s += term.c * (v if term.L.s else 1 - v)
    return s


def normal_form_problems(e):
    bad = []
    seen = set()
    for key, term in e.t.items():
        if not isinstance(term.c, int) or term.c <= 0:
            bad.append(f"coefficient {term.c!r} for {term.L.v}")
        if key != term.L.v:
            bad.append(f"key {key} != variable {term.L.v}")
        if term.L.v in seen:
            bad.append(f"variable {term.L.v} twice")
        seen.add(term.L.v)
    if not isinstance(e.c, int):
        bad.append(f"non-integer constant {e.c!r}")
    return bad


def _cmp(a, op, b):
    return {">=": a >= b, "<=": a <= b, ">": a > b, "<": a < b, "==": a == b, "=": a == b}[op]


def operand_value(o, asg):
    pb = _pb
    if isinstance(o, pb.Literal):
        v = asg[o.v]
        return v if o.s else 1 - v
    if isinstance(o, pb.Term):
        v = asg[o.L.v]
        return o.c * (v if o.L.s else 1 - v)
    return expr_value(o, asg)


def check(case, ctx):
    pb = _pb
    vars_ = case["vars"]
    assignments = [dict(zip(vars_, bits)) for bits in itertools.product((0, 1), repeat=len(vars_))]
    _pool_trees[:] = case.get("pool", [])
    _pool_objs[:] = []
    for t in _pool_trees:
        ok, o = ctx.call(build, t)
        if not ok:
            ctx.violation("expr_build_raised", f"building a shared operand raised {type(o).__name__}: {o}")
            return
        _pool_objs.append(o)
    _augmented[0] = 0
    try:
        _check(case, ctx, assignments)
    finally:
        ctx.count("augmented_assignments_built", _augmented[0])
        # operands handed to the algebra must still mean what they meant (no operation may alter its arguments)
        for t, o in zip(_pool_trees, _pool_objs):
            ctx.count("shared_operands_rechecked")
            for asg in assignments:
                if operand_value(o, asg) != ev(t, asg):
                    ctx.violation("operand_mutated", f"an operand built as {t} now evaluates to {operand_value(o, asg)} instead of {ev(t, asg)} under {asg}: an operation altered its argument")
                    break


def _check(case, ctx, assignments):
    pb = _pb
    vars_ = case["vars"]
    if "tree" in case:
        tree = case["tree"]
        ok, e = ctx.call(build, tree)
        if not ok:
            ctx.violation("expr_build_raised", f"building a supported expression raised {type(e).__name__}: {e}")
            return
        if not isinstance(e, pb.Expr):
            ctx.violation("expr_wrong_type", f"result is {type(e).__name__}")
            return
        ctx.nontrivial(len(used_vars(tree, set())) >= 2 and nodes(tree) >= 4)
        ctx.count("normal_form_checked")
        nf = normal_form_problems(e)
        if nf:
            ctx.violation("normal_form", "; ".join(nf), built=e.tostr())
        for asg in assignments:
            ctx.count("expr_assignments_checked")
            want, got = ev(tree, asg), expr_value(e, asg)
            if want != got:
                ctx.violation("expr_value", f"built '{e.tostr()}' evaluates to {got}, direct evaluation gives {want} under {asg}")
                break
        return
    left, right, op = case["left"], case["right"], case["op"]

    def mk():
        lo, ro = build(left), build(right)
        return {">=": lambda: lo >= ro, "<=": lambda: lo <= ro, ">": lambda: lo > ro, "<": lambda: lo < ro,
                "==": lambda: lo == ro}[op]()
    ok, q = ctx.call(mk)
    if not ok:
        ctx.violation("ineq_build_raised", f"building a supported comparison raised {type(q).__name__}: {q}")
        return
    if not isinstance(q, pb.Ineq):
        ctx.violation("ineq_wrong_type", f"comparison returned {type(q).__name__}")
        return
    uv = used_vars(left, set()) | used_vars(right, set())
    ctx.nontrivial(len(uv) >= 2 and nodes(left) + nodes(right) >= 4)
    ctx.count("normal_form_checked")
    nf = normal_form_problems(q.lhs)
    if q.lhs.c != 0:
        nf.append(f"lhs keeps constant {q.lhs.c}")
    if q.op not in (">=", ">", "="):
        nf.append(f"operator {q.op!r} not normalised")
    if nf:
        ctx.violation("normal_form", "; ".join(nf), built=q.tostr())
    for asg in assignments:
        ctx.count("ineq_assignments_checked")
        want = _cmp(ev(left, asg), op, ev(right, asg))
        got = _cmp(expr_value(q.lhs, asg), q.op, q.rhs)
        if want != got:
            ctx.violation("ineq_truth", f"built '{q.tostr()}' is {got}, direct comparison is {want} under {asg}")
            break
