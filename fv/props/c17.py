"""C17 - Disc-overlap area is total, symmetric, bounded and accurate.

Monitor: postcondition on the real circle_circle_intersection_area for every generated pair:
no exception, finite, symmetric, within [0, pi*min(r)^2], and within 1e-5*max(r)^2 of the exact lens
area computed with mpmath (60 digits) from the exact (rational) values of the float inputs.
"""
import math
from fractions import Fraction

ID = "C17"
RULE = ("pairs of discs by class (tangent within k ulps externally/internally, equal, nested, far, lens, radius ratio up to 1e6, "
        "offset positions); non-trivial = proper lens or within 16 ulps of a tangency; distinct = distinct (c1,r1,c2,r2)")
ASSUMPTIONS = [
    "finite positive radii between 1e-6 and 1e6, finite centres up to 1e6 in magnitude; a tenth of the cases are the same configurations rescaled exactly by 2^+-(60..400) (squared radii stay representable)",
    "bounds are judged with the one numeric tolerance the property states, 1e-5*max(r)^2, symmetry with twice that: with nearly equal radii r1^2-r2^2 cancels and the area error reaches ~1e-6*max(r)^2 (seen only in the 20M-case thorough tier), inside the accuracy bound",
]
CASES = {"quick": 600000, "thorough": 20000000}
MIN_CASES = {"quick": 100000, "thorough": 500000}
REQUIRED_CLASSES = ["ext_tangent_axis", "int_tangent_axis", "ext_tangent_dir", "int_tangent_dir", "equal", "lens", "rescaled_up", "rescaled_down"]
REQUIRED_COUNTERS = ["oracle_compared", "symmetry_checked", "reused_points_checked", "with_rectangle_tolerance_defined"]

_f = None
_Point = None
_mp = None


def setup(ctx):
    global _f, _Point, _mp
    from tools.force.fruchterman_reingold import circle_circle_intersection_area
    from frame.geometry.geometry import Point
    import mpmath
    mpmath.mp.dps = 60
    _f, _Point, _mp = circle_circle_intersection_area, Point, mpmath


def _radius(rng):
    r = rng.random()
    if r < 0.5:
        return round(rng.uniform(0.1, 10), rng.choice([1, 2, 4])) or 0.1
    if r < 0.8:
        return rng.uniform(0.01, 100)
    return 10 ** rng.uniform(-6, 6)


def _nudge(x, k):
    for _ in range(abs(k)):
        x = math.nextafter(x, math.inf if k > 0 else -math.inf)
    return x


def generate(rng, tier, i):
    r1, r2 = _radius(rng), _radius(rng)
    cls = rng.choice(["ext_tangent_axis", "int_tangent_axis", "ext_tangent_dir", "int_tangent_dir", "ext_tangent_345",
                      "int_tangent_345", "equal", "nested", "far", "lens", "lens", "big_ratio", "offset_lens", "offset_tangent"])
    off = (0.0, 0.0)
    if cls.startswith("offset"):
        off = (rng.uniform(-1e6, 1e6), rng.uniform(-1e6, 1e6)) if rng.random() < 0.5 else (float(rng.randint(-10**6, 10**6)), float(rng.randint(-10**6, 10**6)))
    if cls == "big_ratio":
        r1 = 10 ** rng.uniform(0, 6)
        r2 = r1 * 10 ** -rng.uniform(3, 6)
        if rng.random() < 0.5:
            r1, r2 = r2, r1
    k = rng.randint(-8, 8)
    if cls in ("ext_tangent_axis", "int_tangent_axis", "offset_tangent"):
        base = (r1 + r2) if cls != "int_tangent_axis" and (cls != "offset_tangent" or rng.random() < 0.5) else abs(r1 - r2)
        if base == 0.0:
            base = r1 + r2
        d = _nudge(base, k)
        if rng.random() < 0.5:
            c1, c2 = (off[0], off[1]), (off[0] + d, off[1])
        else:
            c1, c2 = (off[0], off[1] + d), (off[0], off[1])
    elif cls in ("ext_tangent_dir", "int_tangent_dir"):
        base = (r1 + r2) if cls == "ext_tangent_dir" else abs(r1 - r2)
        d = base * (1 + k * 2.0 ** -52)
        th = rng.uniform(0, 2 * math.pi)
        c1 = (rng.uniform(-10, 10), rng.uniform(-10, 10))
        c2 = (c1[0] + d * math.cos(th), c1[1] + d * math.sin(th))
    elif cls in ("ext_tangent_345", "int_tangent_345"):
        s = rng.choice([0.1, 0.25, 1.0, 2.0, 0.01, 3.0]) * rng.randint(1, 20)
        tot = 5 * s
        if cls == "ext_tangent_345":
            r1 = tot * rng.choice([0.5, 0.25, 0.2, 0.1])
            r2 = tot - r1
        else:
            r2 = rng.choice([0.5, 1.0, 2.0, 0.3]) * s
            r1 = tot + r2
        c1 = (0.0, 0.0)
        c2 = (_nudge(3 * s, rng.randint(-2, 2)), 4 * s)
    elif cls == "equal":
        r2 = r1
        c1 = (rng.uniform(-10, 10), rng.uniform(-10, 10))
        m = rng.random()
        if m < 0.4:
            c2 = c1
        elif m < 0.7:
            c2 = (_nudge(c1[0], rng.randint(1, 4)), c1[1])
        else:
            c2 = (c1[0] + r1 * 10 ** -rng.uniform(1, 15), c1[1])
    elif cls == "nested":
        big, small = max(r1, r2), min(r1, r2)
        if big == small:
            big = small * 2
        r1, r2 = (big, small) if rng.random() < 0.5 else (small, big)
        d = rng.uniform(0, big - small) * rng.random()
        th = rng.uniform(0, 2 * math.pi)
        c1 = (rng.uniform(-5, 5), rng.uniform(-5, 5))
        c2 = (c1[0] + d * math.cos(th), c1[1] + d * math.sin(th))
    elif cls == "far":
        d = (r1 + r2) * rng.uniform(1.001, 1000)
        th = rng.uniform(0, 2 * math.pi)
        c1 = (0.0, 0.0)
        c2 = (d * math.cos(th), d * math.sin(th))
    else:  # lens, big_ratio, offset_lens
        lo, hi = abs(r1 - r2), r1 + r2
        d = lo + (hi - lo) * rng.random()
        th = rng.uniform(0, 2 * math.pi)
        c1 = off
        c2 = (c1[0] + d * math.cos(th), c1[1] + d * math.sin(th))
    case = {"cls": cls, "c1": [float(c1[0]), float(c1[1])], "r1": float(r1), "c2": [float(c2[0]), float(c2[1])], "r2": float(r2)}
    if rng.random() < 0.2:
        m = max(r1, r2)
        case["move"] = [rng.choice([0.0, 0.3, -0.7]) * m, rng.choice([0.5, -0.25, 1.5, 0.01]) * m]
    if rng.random() < 0.1:
        # the same configuration in other units: everything multiplied by a power of two (exact, so the geometry is unchanged);
        # squares of the radii stay far from overflow / underflow
        f = 2.0 ** (rng.choice([-1, 1]) * rng.randint(60, 400))
        case["c1"] = [v * f for v in case["c1"]]
        case["c2"] = [v * f for v in case["c2"]]
        case["r1"], case["r2"] = case["r1"] * f, case["r2"] * f
        if "move" in case:
            case["move"] = [v * f for v in case["move"]]
        case["cls"] = "rescaled_" + ("up" if f > 1 else "down")
    return case


def directed():
    return [
        # witnesses of the fixed defect (acos argument rounds outside [-1, 1] near tangency)
        {"cls": "directed_acos_domain", "c1": [0.0, 0.0], "r1": 4.2377, "c2": [0.42369999999999997, 0.0], "r2": 3.814},
        {"cls": "directed_acos_domain", "c1": [0.0, 0.0], "r1": 0.1, "c2": [0.30000000000000004, 0.0], "r2": 0.2},
        {"cls": "directed_concentric", "c1": [1.0, 1.0], "r1": 2.0, "c2": [1.0, 1.0], "r2": 2.0},
    ]


def exact_lens(c1, r1, c2, r2):
    mp = _mp
    dx = Fraction(c1[0]) - Fraction(c2[0])
    dy = Fraction(c1[1]) - Fraction(c2[1])
    d2 = dx * dx + dy * dy
    R1, R2 = Fraction(r1), Fraction(r2)
    if d2 >= (R1 + R2) ** 2:
        return mp.mpf(0), "disjoint", d2
    if d2 <= (R1 - R2) ** 2:
        m = min(R1, R2)
        return mp.pi * (mp.mpf(m.numerator) / m.denominator) ** 2, "nested", d2
    d = mp.sqrt(mp.mpf(d2.numerator) / d2.denominator)
    a, b = mp.mpf(r1), mp.mpf(r2)
    t1 = a * a * mp.acos((d * d + a * a - b * b) / (2 * d * a))
    t2 = b * b * mp.acos((d * d + b * b - a * a) / (2 * d * b))
    k = (-d + a + b) * (d + a - b) * (d - a + b) * (d + a + b)
    return t1 + t2 - mp.sqrt(k) / 2, "lens", d2


def check(case, ctx):
    c1, r1, c2, r2 = case["c1"], case["r1"], case["c2"], case["r2"]
    P = _Point
    from frame.geometry.geometry import Rectangle
    if int(r1 * 1e6) % 2:
        Rectangle.set_epsilon(1e-11 * 100 * max(r1, r2))      # as after loading a die a hundred radii wide
        ctx.count("with_rectangle_tolerance_defined")
    else:
        Rectangle.undefine_epsilon()
    ok, v = ctx.call(_f, P(c1[0], c1[1]), r1, P(c2[0], c2[1]), r2)
    ok2, w = ctx.call(_f, P(c2[0], c2[1]), r2, P(c1[0], c1[1]), r1)
    exact, kind, d2 = exact_lens(c1, r1, c2, r2)
    rmax2 = max(r1, r2) ** 2
    near = False
    if d2 > 0:
        dd = math.sqrt(float(d2))
        for base in (r1 + r2, abs(r1 - r2)):
            if base > 0 and abs(dd - base) <= 16 * math.ulp(base):
                near = True
    ctx.nontrivial(kind == "lens" or near)
    if near:
        ctx.count("near_tangent_cases")
    ctx.count("geometry:" + kind)
    if not ok or not ok2:
        e = v if not ok else w
        ctx.violation("raised", f"circle_circle_intersection_area raised {type(e).__name__}: {e} on c1={c1} r1={r1!r} c2={c2} r2={r2!r}")
        return
    for val in (v, w):
        if not isinstance(val, (int, float)) or not math.isfinite(val):
            ctx.violation("non_finite", f"returned {val!r}")
            return
    # Point objects are mutable and callers move them in place (the force-directed layout does): evaluate, move, evaluate again
    if case.get("move"):
        ctx.count("reused_points_checked")
        p1, p2 = P(c1[0], c1[1]), P(c2[0], c2[1])
        ctx.call(_f, p1, r1, p2, r2)
        dx, dy = case["move"]
        if dx:
            p2.x += dx          # only the coordinates that change are assigned (a clamp along one axis touches one attribute)
        if dy:
            p2.y += dy
            p1.y -= dy
        ok3, v3 = ctx.call(_f, p1, r1, p2, r2)
        n1, n2 = [p1.x, p1.y], [p2.x, p2.y]
        ex3, _, _ = exact_lens(n1, r1, n2, r2)
        if not ok3:
            ctx.violation("raised", f"after moving the centres in place: {v3!r}")
        elif abs(_mp.mpf(v3) - ex3) > 1e-5 * rmax2:
            ctx.violation("stale_after_move", f"after moving the centres in place to {n1} / {n2} the area is {v3!r}, exact {float(ex3)!r} (r1={r1!r}, r2={r2!r})")
    slack = 1e-5 * rmax2          # the one numeric tolerance the property states
    ctx.count("symmetry_checked")
    if abs(v - w) > 2 * slack:
        ctx.violation("asymmetric", f"f(a,b)={v!r} but f(b,a)={w!r} (max r^2={rmax2})")
    amin = math.pi * min(r1, r2) ** 2
    if v < -slack or v > amin + slack:
        ctx.violation("out_of_bounds", f"returned {v!r}, not in [0, {amin!r}]")
    ctx.count("oracle_compared")
    err = abs(_mp.mpf(v) - exact)
    if err > 1e-5 * rmax2:
        ctx.violation("inaccurate", f"returned {v!r}, exact lens area {float(exact)!r}, error {float(err)!r} > 1e-5*{rmax2!r}")
