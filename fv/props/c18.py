"""C18 - Rectangle operations agree with plane geometry.

Monitor: every Rectangle method named by the property is called on generated pairs (by relation
class x coordinate family) and judged against exact rational geometry (fv/exact.py) with the
gray-zone rule for decision predicates."""
import os
from fractions import Fraction as F

from fv.exact import XR, tiling_report
from fv.gen import geo

ID = "C18"
RULE = ("rectangle pairs by relation class (disjoint, edge/corner touch, nested, crossing, identical, other region, near miss, random) x "
        "coordinate family (int, binary, decimal 0.1/0.01/0.05/0.3/0.7, 1e3, 1e-3, random 53-bit floats); every method is exercised on every case; "
        "non-trivial = the two rectangles touch or intersect, or a cut/grid produced >=2 pieces; distinct = distinct case")
ASSUMPTIONS = [
    "decision predicates are not judged when the exact quantity lies within 1e-12*scale of the decision boundary (gray zone), nor within [0.5,2]x the code's own tolerance for touches/overlap",
    "the class-wide tolerance is pinned per case to 1e-11*min(extent), the value a fresh process loading a die of that extent gets",
    "cut coordinates are >= 0 (a negative coordinate means 'halve' in the API); rectangles themselves may lie at negative coordinates or straddle an axis, and are then cut at exactly 0 as well",
]
CASES = {"quick": 24000, "thorough": 600000}
MIN_CASES = {"quick": 6000, "thorough": 200000}
REQUIRED_CLASSES = ["in_situ", "disjoint", "edge_touch", "corner_touch", "nested", "crossing", "identical", "other_region", "near_miss"]
REQUIRED_COUNTERS = ["tolerance_set_with_explicit_area", "in_situ_workloads_completed", "moved_in_place_judged", "area_overlap_judged", "mul_judged", "is_inside_judged", "point_inside_judged", "touches_judged",
                     "split_judged", "grid_judged", "cuttable_true_judged", "cuttable_false_judged", "overlap_judged", "cut_at_coordinate_zero_judged", "pieces_modified_in_place"]

RELS = ["disjoint", "edge_touch", "corner_touch", "nested", "crossing", "identical", "other_region", "near_miss", "random"]
REGIONS = ["_", "_", "LUT", "DSP", "#"]

_g = None


def setup(ctx):
    global _g
    from frame.geometry import geometry
    from fv import contracts
    _g = geometry
    ctx.extra["in_situ_contract_mechanism"] = contracts.install()


def finish(ctx):
    from fv import contracts
    contracts.report(ctx)


def _span(rng, n, lo=1):
    w = rng.randint(lo, max(lo, n // 2))
    i0 = rng.randint(0, n - w)
    return i0, i0 + w


def gen_in_situ(rng):
    """a workload of the higher layers (die decomposition, die refinement, initial allocation, allocation refinement): the
    Rectangle operations are judged by the in-situ contracts on whatever inputs those layers really produce"""
    from fv.gen import dies as gd, netlists as gn
    d = gd.gen_die(rng, max_n=6)
    doc = gn.gen_compatible(rng, d, max_modules=5)
    slim = {k: d[k] for k in ("fam", "W", "H", "regions", "fixed", "struct")}
    return {"cls": "in_situ", "die": slim, "netlist": doc, "split": [rng.choice([1.5, 2, 3]), rng.choice([2, 4, 8])],
            "ops": [rng.choice([["refine", rng.choice([0.5, 0.9, 1.0]), 1], ["griddify"], ["uniform"]]) for _ in range(rng.randint(1, 3))]}


def check_in_situ(case, ctx):
    from fv import contracts, dieutil, allocutil as au
    from frame.allocation.allocation import create_initial_allocation
    contracts.VIOLATIONS.clear()
    ctx.nontrivial(True)
    try:
        d = dict(case["die"])
        d["netlist"] = case["netlist"]
        die, nl = dieutil.build_die(d, "tree")
        if die.ground_regions or die.specialized_regions:
            die.split_refinable_regions(*case["split"])
            a = create_initial_allocation(die)
            for op in case["ops"]:
                if au.predicted_size(a, op) > 150:
                    break
                a = au.apply_op(a, op)
        ctx.count("in_situ_workloads_completed")
    except Exception:  # noqa  the higher layers are judged by their own properties; here only the contracts speak
        ctx.count("in_situ_workloads_aborted")
    contracts.drain(ctx, "in_situ")


def check_repo_tests_under_contracts(case, ctx):
    """thorough tier: the repository's own test-suite with the contracts switched on"""
    import json
    import os
    import subprocess
    import sys
    from fv import core
    out = os.path.join(os.environ.get("FV_SCRATCH", "/tmp"), "contracts_pytest.json")
    env = dict(os.environ, FV_CONTRACT_OUT=out, PYTHONPATH=os.pathsep.join([core.repo_path(), core.VERIF, os.path.join(core.VERIF, ".deps")]))
    p = subprocess.run([sys.executable, "-m", "pytest", "-q", "-p", "no:cacheprovider", "-p", "fv.pytest_contracts", "tests"], cwd=core.repo_path(), env=env,
                       capture_output=True, text=True, timeout=1200)
    ctx.nontrivial(True)
    if not os.path.exists(out):
        raise core.HarnessError("contracts plugin produced no report: " + p.stdout[-300:] + p.stderr[-300:])
    rep = json.load(open(out))
    os.remove(out)
    ctx.count("repo_tests_run_under_contracts", rep["tests_collected"])
    for k, v in rep["evaluations"].items():
        ctx.count("repo_tests_contract_evaluations:" + k, v)
    if rep["tests_failed"]:
        raise core.HarnessError(f"{rep['tests_failed']} repository tests fail with the contracts on (a contract must never change behaviour): {p.stdout[-400:]}")
    for v in rep["violations"]:
        ctx.violation("in_situ_repo_tests:" + v["contract"], v["msg"])


def directed():
    return [{"cls": "repo_tests_under_contracts"}]


def generate(rng, tier, i):
    if i % 10 == 9:
        return gen_in_situ(rng)
    fam = geo.pick_family(rng)
    nx, ny = rng.randint(3, 12), rng.randint(3, 12)
    ox = rng.choice([F(0), F(0), F(3), F(1, 10), F(25, 2)]) if fam != "float53" else F(0)
    xs, ys = geo.make_axis(rng, fam, nx, origin=ox), geo.make_axis(rng, fam, ny)
    rel = RELS[i % len(RELS)] if rng.random() < 0.8 else rng.choice(RELS)
    a = (*_span(rng, nx), *_span(rng, ny))
    for _ in range(60):
        if rel == "identical":
            b = a
        elif rel == "nested":
            bi0 = rng.randint(a[0], a[1] - 1)
            bi1 = rng.randint(bi0 + 1, a[1])
            bj0 = rng.randint(a[2], a[3] - 1)
            bj1 = rng.randint(bj0 + 1, a[3])
            b = (bi0, bi1, bj0, bj1)
        else:
            b = (*_span(rng, nx), *_span(rng, ny))
        iw = min(a[1], b[1]) - max(a[0], b[0])
        ih = min(a[3], b[3]) - max(a[2], b[2])
        if rel == "disjoint" and (iw < 0 or ih < 0):
            break
        if rel in ("edge_touch", "near_miss") and ((iw == 0 and ih > 0) or (ih == 0 and iw > 0)):
            break
        if rel == "corner_touch" and iw == 0 and ih == 0:
            break
        if rel in ("crossing", "other_region") and iw > 0 and ih > 0 and a != b:
            break
        if rel in ("identical", "nested", "random"):
            break
    else:
        rel = "random"
    straddle = fam != "float53" and rng.random() < 0.15
    if straddle:
        # rectangle a straddles an axis (negative coordinates are ordinary coordinates); the coordinate 0 is then a cut like any other
        sx = xs[a[0]] + (xs[a[1]] - xs[a[0]]) * F(1, 4)
        xs = [x - sx for x in xs]
        if rng.random() < 0.5:
            sy = ys[a[2]] + (ys[a[3]] - ys[a[2]]) * F(3, 4)
            ys = [y - sy for y in ys]
    ra = geo.cwh(xs[a[0]], xs[a[1]], ys[a[2]], ys[a[3]])
    rb = geo.cwh(xs[b[0]], xs[b[1]], ys[b[2]], ys[b[3]])
    ext_x, ext_y = geo.fl(xs[-1] - xs[0]), geo.fl(ys[-1] - ys[0])
    if rel == "near_miss":
        d = rng.choice([1e-6, -1e-6, 1e-5, -1e-4, 1e-3]) * min(ext_x, ext_y)
        if rng.random() < 0.5:
            rb[0] += d
        else:
            rb[1] += d
        if rb[0] - rb[2] / 2 < 0 or rb[1] - rb[3] / 2 < 0:
            rb[0], rb[1] = rb[0] + abs(d), rb[1] + abs(d)
    reg_a = rng.choice(REGIONS)
    reg_b = reg_a if rel != "other_region" else rng.choice([r for r in REGIONS if r != reg_a])
    if rel == "random" and rng.random() < 0.3:
        reg_b = rng.choice(REGIONS)
    # cut coordinates for a
    x0, x1 = ra[0] - ra[2] / 2, ra[0] + ra[2] / 2
    y0, y1 = ra[1] - ra[3] / 2, ra[1] + ra[3] / 2
    cuts = []
    for (lo, hi, w, other) in ((x0, x1, ra[2], ra[3]), (y0, y1, ra[3], ra[2])):
        m = max(w, other)
        cand = [lo + w * rng.random(), lo + w / 2, lo, hi, geo.ulps(lo, rng.randint(-3, 3)), geo.ulps(hi, rng.randint(-3, 3)),
                lo - w * rng.random(), hi + w * rng.random(),
                lo + 0.01 * m * rng.choice([0.5, 0.9, 1.1, 1.5, 2.0]), hi - 0.01 * m * rng.choice([0.5, 0.9, 1.1, 1.5, 2.0]),
                lo + 0.01 * other * rng.choice([0.9, 1.1]), lo + w * rng.choice([0.25, 0.1, 0.75, 1 / 3])]
        lat = [geo.fl(v) for v in (xs if w == ra[2] and lo == x0 else ys)]
        cand.append(rng.choice(lat))
        if lo < 0 < hi:
            cand.append(0.0)
        cuts.append([c for c in cand if c >= 0])
    return {"cls": rel, "fam": fam, "a": ra + [reg_a, rng.random() < 0.3, rng.random() < 0.3],
            "b": rb + [reg_b, rng.random() < 0.3, rng.random() < 0.3], "ext": [ext_x, ext_y],
            "exact": fam in ("int", "half", "quarter", "large_1e3") and rel != "near_miss" and ox.denominator in (1, 2),
            "xcuts": cuts[0], "ycuts": cuts[1], "grid": [rng.randint(1, 8), rng.randint(1, 8)] if rng.random() < 0.9 else [1, rng.choice([1, 1, 2])], "straddle": straddle}


def mk(spec):
    g = _g
    region = (spec[4] + " ")[:-1]      # an equal but DISTINCT string object (as region names read from two documents are)
    return g.Rectangle(center=g.Point(spec[0], spec[1]), shape=g.Shape(spec[2], spec[3]), region=region, fixed=spec[5], hard=spec[6])


def attrs(r):
    return (r.region, r.fixed, r.hard)


def close_xr(p: XR, q: XR, tl) -> bool:
    return abs(p.x0 - q.x0) <= tl and abs(p.x1 - q.x1) <= tl and abs(p.y0 - q.y0) <= tl and abs(p.y1 - q.y1) <= tl


def check(case, ctx):
    if case["cls"] == "in_situ":
        return check_in_situ(case, ctx)
    if case["cls"] == "repo_tests_under_contracts":
        if ctx.tier == "thorough" or os.environ.get("FV_FORCE_REPO_TESTS"):
            return check_repo_tests_under_contracts(case, ctx)
        ctx.count("repo_tests_under_contracts_skipped_in_quick_tier")
        return
    from fv import contracts
    contracts.VIOLATIONS.clear()
    _check_pair(case, ctx)
    contracts.drain(ctx, "in_situ")


def _check_pair(case, ctx):
    g = _g
    ext = case["ext"]
    scale = max(ext)
    import math as _math
    want_d = 1e-11 * min(ext)
    want_a = _math.sqrt(want_d)
    g.Rectangle.undefine_epsilon()
    if int(abs(case["a"][0]) * 7 + case["grid"][0]) % 3 == 0:
        g.Rectangle.set_epsilon(want_d, want_a)          # both tolerances given explicitly
        ctx.count("tolerance_set_with_explicit_area")
    else:
        g.Rectangle.set_epsilon(want_d)
    ok_d, got_d = ctx.call(g.Rectangle.distance_epsilon)
    ok_a, got_a = ctx.call(g.Rectangle.area_epsilon)
    if not (ok_d and ok_a) or got_d != want_d or abs(got_a - want_a) > 1e-15 * want_a:
        ctx.violation("tolerance_accessors", f"set_epsilon({want_d!r}[, {want_a!r}]) but distance_epsilon()={got_d!r}, area_epsilon()={got_a!r}")
        g.Rectangle.set_epsilon(want_d)
    eps_d, eps_a = F(want_d), F(want_a)
    tl = F(1e-9) * F(scale)
    ta = F(1e-9) * F(scale) ** 2
    # binary-exact families: every float operation of the code is exact, so there is no gray zone
    exact_family = bool(case.get("exact"))
    import math
    maxc = max(abs(case["a"][0]) + case["a"][2], abs(case["a"][1]) + case["a"][3], abs(case["b"][0]) + case["b"][2], abs(case["b"][1]) + case["b"][3])
    gz = F(0) if exact_family else max(F(1e-12) * F(scale), F(8 * math.ulp(maxc)))

    def isgray(v):
        return gz > 0 and abs(v) <= gz
    a, b = mk(case["a"]), mk(case["b"])
    A, B = XR.of(a), XR.of(b)
    iw, ih = A.inter_wh(B)
    common = A.inter_area(B)
    ctx.nontrivial(iw >= -tl and ih >= -tl)

    def viol(kind, msg):
        ctx.violation(kind, f"{msg} | a={case['a']} b={case['b']}")

    # ---- bounding box -------------------------------------------------------------------
    ok, bb = ctx.call(lambda: a.bounding_box)
    if not ok:
        return viol("raised", f"bounding_box raised {bb!r}")
    if not close_xr(XR(bb.ll.x, bb.ur.x, bb.ll.y, bb.ur.y), A, F(1e-12) * F(max(scale, abs(case['a'][0]), abs(case['a'][1])))):
        viol("bounding_box", f"bounding_box {bb} != {A}")

    # ---- overlap area -------------------------------------------------------------------
    ok1, ab = ctx.call(a.area_overlap, b)
    ok2, ba = ctx.call(b.area_overlap, a)
    if not (ok1 and ok2):
        return viol("raised", f"area_overlap raised {ab!r} {ba!r}")
    ctx.count("area_overlap_judged")
    if abs(F(ab) - F(ba)) > ta:
        viol("area_overlap_asymmetric", f"a.area_overlap(b)={ab!r}, b.area_overlap(a)={ba!r}")
    if abs(F(ab) - common) > ta:
        viol("area_overlap_value", f"area_overlap={ab!r}, exact common area={float(common)!r}")

    # ---- intersection --------------------------------------------------------------------
    ok1, m1 = ctx.call(lambda: a * b)
    ok2, m2 = ctx.call(lambda: b * a)
    if not (ok1 and ok2):
        return viol("raised", f"__mul__ raised {m1!r} {m2!r}")
    same_region = case["a"][4] == case["b"][4]
    if not isgray(min(iw, ih)) or not same_region:
        ctx.count("mul_judged")
        should = same_region and iw > 0 and ih > 0
        for nm, m, first in (("a*b", m1, a), ("b*a", m2, b)):
            if (m is not None) != should:
                viol("mul_existence", f"{nm} is {'a rectangle' if m is not None else 'None'} but common area={float(common)!r}, same_region={same_region}")
            elif m is not None:
                M = XR.of(m)
                if M.inside_margin(A) < -tl or M.inside_margin(B) < -tl:
                    viol("mul_not_inside", f"{nm}={M} not inside both operands")
                if abs(M.area - common) > ta:
                    viol("mul_area", f"{nm} has area {float(M.area)!r}, common area {float(common)!r}")
                if attrs(m) != attrs(first):
                    viol("mul_attrs", f"{nm} attributes {attrs(m)} != first operand's {attrs(first)}")
        if m1 is not None and m2 is not None and not close_xr(XR.of(m1), XR.of(m2), tl):
            viol("mul_asymmetric", f"a*b={XR.of(m1)} b*a={XR.of(m2)}")
    else:
        ctx.gray("mul_boundary")

    # ---- containment / membership -----------------------------------------------------------
    for nm, p, q, P, Q in (("b.is_inside(a)", b, a, B, A), ("a.is_inside(b)", a, b, A, B)):
        marg = [P.x0 - Q.x0, Q.x1 - P.x1, P.y0 - Q.y0, Q.y1 - P.y1]
        ok, res = ctx.call(p.is_inside, q)
        if not ok:
            return viol("raised", f"{nm} raised {res!r}")
        bp, bq = p.bounding_box, q.bounding_box
        ctx.count("is_inside_vs_reported_boxes")
        if res != (bp.ll.x >= bq.ll.x and bp.ll.y >= bq.ll.y and bp.ur.x <= bq.ur.x and bp.ur.y <= bq.ur.y):
            viol("is_inside_vs_boxes", f"{nm}={res} contradicts the coordinate comparison of the reported bounding boxes {bp} / {bq}")
        if any(isgray(mm) for mm in marg) and not any(mm < -gz for mm in marg):
            ctx.gray("is_inside_boundary")
        else:
            ctx.count("is_inside_judged")
            if res != all(mm >= 0 for mm in marg):
                viol("is_inside", f"{nm}={res}, margins={[float(mm) for mm in marg]}")
    _ba, _bb = a.bounding_box, b.bounding_box
    pts = [(_ba.ll.x, _ba.ll.y), (_ba.ur.x, _ba.ur.y), (_ba.ur.x, _ba.ll.y), (_bb.ll.x, _bb.ur.y), (_bb.ur.x, _bb.ur.y),
           (case["b"][0], case["b"][1]), (float(B.x0), float(B.y0)), (float(B.x1), float(B.y1)),
           (case["a"][0], float(A.y1) + float(A.h)), (float(A.x0) - float(A.w) / 2, case["a"][1]), (float(A.x0), case["a"][1])]
    for (px, py) in pts:
        marg = [F(px) - A.x0, A.x1 - F(px), F(py) - A.y0, A.y1 - F(py)]
        ok, res = ctx.call(a.point_inside, g.Point(px, py))
        if not ok:
            return viol("raised", f"point_inside raised {res!r}")
        ba = a.bounding_box
        ctx.count("point_inside_vs_reported_box")
        if res != (ba.ll.x <= px <= ba.ur.x and ba.ll.y <= py <= ba.ur.y):
            viol("point_inside_vs_box", f"a.point_inside(({px!r},{py!r}))={res} contradicts the coordinate comparison with the reported bounding box {ba}")
        if any(isgray(mm) for mm in marg) and not any(mm < -gz for mm in marg):
            ctx.gray("point_inside_boundary")
        else:
            ctx.count("point_inside_judged")
            if res != all(mm >= 0 for mm in marg):
                viol("point_inside", f"a.point_inside(({px},{py}))={res}, margins={[float(mm) for mm in marg]}")

    # ---- touches / overlap --------------------------------------------------------------------
    gap = max(-iw, -ih)   # > 0: separated by that distance in one axis
    ok1, t1 = ctx.call(a.touches, b)
    ok2, t2 = ctx.call(b.touches, a)
    if not (ok1 and ok2):
        return viol("raised", f"touches raised {t1!r} {t2!r}")
    if t1 != t2:
        viol("touches_asymmetric", f"a.touches(b)={t1}, b.touches(a)={t2}")
    if eps_d / 2 <= gap <= 2 * eps_d + gz:
        ctx.gray("touches_boundary")
    else:
        ctx.count("touches_judged")
        if t1 != (gap <= eps_d):
            viol("touches", f"touches={t1} but gap={float(gap)!r}, tolerance={float(eps_d)!r}")
    ok, ov = ctx.call(a.overlap, b)
    if not ok:
        return viol("raised", f"overlap raised {ov!r}")
    if eps_a / 2 <= common <= 2 * eps_a:
        ctx.gray("overlap_boundary")
    else:
        ctx.count("overlap_judged")
        if ov != (common > eps_a):
            viol("overlap", f"overlap={ov} but common area={float(common)!r}, area tolerance={float(eps_a)!r}")

    # ---- duplicate -----------------------------------------------------------------------------
    ok, dpl = ctx.call(a.duplicate)
    if not ok:
        return viol("raised", f"duplicate raised {dpl!r}")
    if dpl is a or not close_xr(XR.of(dpl), A, 0) or attrs(dpl) != attrs(a):
        viol("duplicate", f"duplicate differs: {dpl} attrs {attrs(dpl)} vs {attrs(a)}")

    # ---- halving --------------------------------------------------------------------------------
    def independent(name, pieces):
        """pieces are rectangles of their own: moving one in place (as Module.recenter_rectangles, glbfloor's mirroring and the force tool do
        with `r.center.x += dx`) must not move the parent or a sibling.  Only centres are moved: no FRAME code writes to a Shape in place, and
        the cells of rectangle_grid legitimately share one Shape object"""
        objs = list(pieces[:6]) + [a]
        snap = [(o.center.x, o.center.y, o.shape.w, o.shape.h) for o in objs]
        ctx.count("pieces_modified_in_place")
        for k, p in enumerate(objs[:-1]):
            p.center.x += 1.0
            p.center.y -= 2.0
            now = [(o.center.x, o.center.y, o.shape.w, o.shape.h) for o in objs]
            p.center.x, p.center.y = snap[k][:2]
            changed = [j for j in range(len(objs)) if j != k and now[j] != snap[j]]
            if changed:
                who = "the parent" if changed[-1] == len(objs) - 1 else f"piece {changed[0]}"
                viol("piece_shares_state", f"{name}: moving piece {k} in place also moved {who} (a shared Point object)")
                for o, v in zip(objs, snap):
                    o.center.x, o.center.y = v[:2]
                return

    def judge_split(name, pieces, expect):
        ctx.count("split_judged")
        ctx.nontrivial(True)
        if len(pieces) != len(expect):
            return viol("split_count", f"{name}: {len(pieces)} pieces, expected {len(expect)}")
        P = [XR.of(p) for p in pieces]
        rep = tiling_report(P, A, scale)
        if rep:
            viol("split_tiling", f"{name}: {rep}")
        for p, e in zip(P, expect):
            if not close_xr(p, e, tl):
                viol("split_geometry", f"{name}: piece {p} expected {e}")
                break
        for p in pieces:
            if attrs(p) != attrs(a):
                viol("split_attrs", f"{name}: piece attributes {attrs(p)} != {attrs(a)}")
                break
            if p is a:
                viol("split_alias", f"{name}: piece is the parent object")
        independent(name, list(pieces))

    xm, ym = A.cx, A.cy
    lr = [XR(A.x0, xm, A.y0, A.y1), XR(xm, A.x1, A.y0, A.y1)]
    bt = [XR(A.x0, A.x1, A.y0, ym), XR(A.x0, A.x1, ym, A.y1)]
    ok, sp = ctx.call(a.split_horizontal)
    if not ok:
        return viol("raised", f"split_horizontal() raised {sp!r}")
    judge_split("split_horizontal()", list(sp), lr)
    ok, sp = ctx.call(a.split_vertical)
    if not ok:
        return viol("raised", f"split_vertical() raised {sp!r}")
    judge_split("split_vertical()", list(sp), bt)
    ok, sp = ctx.call(a.split)
    if not ok:
        return viol("raised", f"split() raised {sp!r}")
    if abs(A.h - A.w) > gz:
        judge_split("split()", list(sp), bt if A.h > A.w else lr)
    else:
        P = [XR.of(p) for p in sp]
        if tiling_report(P, A, scale):
            viol("split_tiling", f"split() of a square: {tiling_report(P, A, scale)}")

    # ---- cuttable / cut at a coordinate -----------------------------------------------------------
    for axis, cuts in (("x", case["xcuts"]), ("y", case["ycuts"])):
        lo, hi = (A.x0, A.x1) if axis == "x" else (A.y0, A.y1)
        side, other = (A.w, A.h) if axis == "x" else (A.h, A.w)
        fn = a.x_cuttable if axis == "x" else a.y_cuttable
        for n_c, c in enumerate(cuts):
            C = F(c)
            ratio = 0.01 if n_c % 3 else [0.001, 0.05, 0.2, 0.0, 0.01][(n_c // 3 + len(cuts)) % 5]     # the 'stated fraction' is a parameter
            ok, res = ctx.call(fn, c, ratio)
            if not ok:
                return viol("raised", f"{axis}_cuttable({c!r}) raised {res!r}")
            smallest = min(C - lo, hi - C)
            if res:
                if smallest <= gz:
                    if smallest < -gz or (gz == 0 and smallest <= 0):
                        ctx.count("cuttable_true_judged")
                        viol("cuttable_outside", f"{axis}_cuttable({c!r})=True but coordinate not strictly inside [{float(lo)},{float(hi)}]")
                    else:
                        ctx.gray("cuttable_edge")
                else:
                    ctx.count("cuttable_true_judged")
                    if c == 0:
                        ctx.count("cut_at_coordinate_zero_judged")
                    # the pieces of the cut must tile the rectangle
                    ok, sp = ctx.call(a.split_horizontal if axis == "x" else a.split_vertical, c)
                    if not ok:
                        viol("cut_raised", f"cut at {axis}={c!r} raised {sp!r} although {axis}_cuttable is True")
                    else:
                        exp = [XR(A.x0, C, A.y0, A.y1), XR(C, A.x1, A.y0, A.y1)] if axis == "x" else \
                              [XR(A.x0, A.x1, A.y0, C), XR(A.x0, A.x1, C, A.y1)]
                        judge_split(f"cut at {axis}={c!r}", list(sp), exp)
            else:
                need = F(ratio) * max(side, other)
                if smallest > gz and smallest >= need * (1 + F(1, 10 ** 9)) + gz:
                    ctx.count("cuttable_false_judged")
                    viol("cuttable_refused", f"{axis}_cuttable({c!r})=False but both pieces ({float(smallest)!r}) are >= 1% of either side ({float(need)!r})")
                elif smallest <= gz:
                    ctx.count("cuttable_false_judged")
                else:
                    ctx.count("cuttable_unspecified_zone")

    # ---- rectangles are mutable: moved in place (as recenter_rectangles / mirroring do) they must still agree ----------
    sx, sy = float(A.w) * 0.5, float(A.h) * 0.25
    a.center.x += sx
    a.center.y += sy
    A2 = XR.of(a)
    ok, bb2 = ctx.call(lambda: a.bounding_box)
    ok2, ab2 = ctx.call(a.area_overlap, b)
    ok3, ba2 = ctx.call(b.area_overlap, a)
    ctx.count("moved_in_place_judged")
    if not (ok and ok2 and ok3):
        viol("raised", f"after an in-place move: {bb2!r} {ab2!r} {ba2!r}")
    else:
        slack = F(1e-12) * F(max(scale, abs(a.center.x), abs(a.center.y)))
        if not close_xr(XR(bb2.ll.x, bb2.ur.x, bb2.ll.y, bb2.ur.y), A2, slack + gz):
            viol("stale_bounding_box", f"after moving the centre in place by ({sx},{sy}) bounding_box is {bb2}, the rectangle is {A2}")
        c2 = A2.inter_area(B)
        if abs(F(ab2) - c2) > ta or abs(F(ba2) - c2) > ta:
            viol("stale_area_overlap", f"after moving the centre in place area_overlap gives {ab2!r}/{ba2!r}, exact common area {float(c2)!r}")
    a.center = g.Point(case["a"][0], case["a"][1])
    a.shape = g.Shape(case["a"][2] * 0.5, case["a"][3])
    A3 = XR.of(a)
    ok, bb3 = ctx.call(lambda: a.bounding_box)
    if ok and not close_xr(XR(bb3.ll.x, bb3.ur.x, bb3.ll.y, bb3.ur.y), A3, F(1e-12) * F(max(scale, abs(a.center.x), abs(a.center.y))) + gz):
        viol("stale_bounding_box", f"after assigning a new shape bounding_box is {bb3}, the rectangle is {A3}")
    a.shape = g.Shape(case["a"][2], case["a"][3])
    a.shape.w *= 0.5            # the Shape object itself resized in place
    a.shape.h *= 1.25
    A4 = XR.of(a)
    ok, bb4 = ctx.call(lambda: a.bounding_box)
    ok2, ov4 = ctx.call(a.area_overlap, b)
    if ok and not close_xr(XR(bb4.ll.x, bb4.ur.x, bb4.ll.y, bb4.ur.y), A4, F(1e-12) * F(max(scale, abs(a.center.x), abs(a.center.y))) + gz):
        viol("stale_bounding_box", f"after resizing the shape in place bounding_box is {bb4}, the rectangle is {A4}")
    if ok2 and abs(F(ov4) - A4.inter_area(B)) > ta:
        viol("stale_area_overlap", f"after resizing the shape in place area_overlap gives {ov4!r}, exact {float(A4.inter_area(B))!r}")
    a.shape = g.Shape(case["a"][2], case["a"][3])

    # ---- grid ---------------------------------------------------------------------------------------
    nr, nc = case["grid"]
    ok, gr = ctx.call(a.rectangle_grid, nr, nc)
    if not ok:
        return viol("raised", f"rectangle_grid({nr},{nc}) raised {gr!r}")
    ctx.count("grid_judged")
    if len(gr) != nr * nc:
        viol("grid_count", f"rectangle_grid({nr},{nc}) returned {len(gr)} rectangles")
    else:
        P = [XR.of(p) for p in gr]
        rep = tiling_report(P, A, scale)
        if rep:
            viol("grid_tiling", f"rectangle_grid({nr},{nc}): {rep}")
        sw, sh = A.w / nc, A.h / nr
        want = sorted((float(A.x0 + sw * c_), float(A.y0 + sh * r_)) for r_ in range(nr) for c_ in range(nc))
        got = sorted((float(p.x0), float(p.y0)) for p in P)
        if any(abs(F(w_[0]) - F(g_[0])) > tl or abs(F(w_[1]) - F(g_[1])) > tl for w_, g_ in zip(want, got)):
            viol("grid_geometry", f"rectangle_grid({nr},{nc}) cells are not the {nr}x{nc} equal cells")
        if any(abs(p.w - sw) > tl or abs(p.h - sh) > tl for p in P):
            viol("grid_geometry", f"rectangle_grid({nr},{nc}) cell sizes are not {float(sw)}x{float(sh)}")
        if any(attrs(p) != attrs(a) for p in gr):
            viol("grid_attrs", "grid cell attributes differ from the parent's")
        independent(f"rectangle_grid({nr},{nc})", list(gr))
