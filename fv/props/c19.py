"""C19 - Every document FRAME produces is accepted back and says the same thing.

Monitor: for each producer (die writer, allocation writer, netgen, FloorSet converter, rect_io netlists,
legaliser netlist) the real producer is run on generated objects, the produced document is fed to the
corresponding real reader, the re-read object is compared field by field with the source object, the
producer is called twice (identical text) and a deep snapshot of the source object is compared before /
after producing."""
import contextlib
import copy
import io
import math
import os
from fractions import Fraction as F

from fv import allocutil as au
from fv import dieutil
from fv import netutil as nu
from fv.exact import XR, union_area
from fv.gen import dies as gd
from fv.gen import geo
from fv.gen import netlists as gn

ID = "C19"
RULE = ("six producers: Die.write_yaml (before/after split_refinable_regions, text and file), Allocation.write_yaml (before/after one refinement), netgen (7 topologies through main() and gen_*, every size from the "
        "smallest defined up to 40, with/without centres, noise, seeds), FloorSet converter (synthetic floorplan_data with polygonal blocks, constraint flags, pins, weighted b2b/p2b incl. weight 0, density), "
        "rect_io.get_netlist / solution_to_netlist (terminals, hard, fixed, weighted nets), legaliser Model.get_netlist; non-trivial = every document with >=2 modules/regions/cells; distinct = distinct case")
ASSUMPTIONS = [
    "a die document cannot carry a particular ground partition: after refinement the re-read ground must cover the same region, not be cut identically; fixed regions come from the attached netlist, not from the document",
    "an allocation document does not carry the in-memory 'fixed' flag of a cell; text documents contain at least one map entry (read_yaml tells text from a file name by ': ')",
    "topology sizes: grid r,c>=1; chain>=1; star>=1; ring>=2; one-net>=2; ring-star>=3; h-tree levels 1-3 (4 in the thorough tier)",
    "numbers compared with relative 1e-12 (centres recomputed on load: 1e-9)",
    "FloorSet polygons are closed (first vertex repeated) and padded with -1, as the loaders deliver them; with a density factor at least one connection has positive weight",
]
CASES = {"quick": 3000, "thorough": 60000}
MIN_CASES = {"quick": 800, "thorough": 15000}
PRODUCERS = ["die", "allocation", "netgen", "floorset", "rect_get_netlist", "rect_solution", "legaliser", "netlist_writer"]
REQUIRED_CLASSES = PRODUCERS
REQUIRED_COUNTERS = ["floorset_blocks_compared_with_source", "floorset_blocks_with_both_flags", "failed_writes_provoked_earlier"] + ["reread_compared:" + p for p in PRODUCERS] + ["twice_compared:" + p for p in PRODUCERS] + ["source_unchanged_checked:" + p for p in PRODUCERS]
SOFT_DEADLINE = {"quick": 240, "thorough": 3300}
TOPOLOGIES = ["grid", "chain", "ring", "star", "ring-star", "one-net", "htree"]

_m = {}


def setup(ctx):
    import numpy
    import tools.netgen.netgen as netgen
    import tools.rect.rect_io as rio
    from frame.allocation.allocation import Allocation
    from frame.die.die import Die
    from frame.netlist.netlist import Netlist
    from frame.geometry.geometry import Rectangle
    from tools.floorset_parser.floor_set_manager.manager import FloorSetInstance
    from fv.props import c09, c15
    c09.setup(ctx)
    _m.update(np=numpy, netgen=netgen, rio=rio, Allocation=Allocation, Die=Die, Netlist=Netlist, Rectangle=Rectangle, FloorSet=FloorSetInstance, c09=c09, c15=c15)


# ---------------------------------------------------------------------------------------------
def generate(rng, tier, i):
    prod = PRODUCERS[i % len(PRODUCERS)]
    if prod == "die":
        d = gd.gen_die(rng, max_n=8)
        slim = {k: d[k] for k in ("fam", "W", "H", "regions", "fixed", "struct")}
        return {"cls": prod, "die": slim, "split": rng.choice([None, None, [rng.choice([1.5, 2, 3]), rng.choice([2, 5, 9])]]), "file": rng.random() < 0.3}
    if prod == "allocation":
        a = au.gen_alloc(rng, max_cells=20)
        a["ops"] = a["ops"][:1] if rng.random() < 0.6 else []
        if not any(c["a"] for c in a["cells"]):
            a["cells"][0]["a"] = {"M0": 0.5}
        return {"cls": prod, "alloc": a, "file": rng.random() < 0.3}
    if prod == "netgen":
        topo = TOPOLOGIES[(i // len(PRODUCERS)) % len(TOPOLOGIES)]
        lo = {"grid": 1, "chain": 1, "star": 1, "ring": 2, "one-net": 2, "ring-star": 3, "htree": 1}[topo]
        if topo == "htree":
            size = [rng.choice([1, 2, 2, 3] + ([4] if tier == "thorough" else []))]
        elif topo == "grid":
            size = [rng.choice([1, 1, 2, 3, rng.randint(1, 7)]), rng.choice([1, 1, 2, 3, rng.randint(1, 7)])]
        else:
            hi = 200 if tier == "thorough" else 40
            size = [rng.choice([lo, lo, lo + 1, lo + 2, rng.randint(lo, hi)])]
        centers = topo == "grid" and rng.random() < 0.5
        return {"cls": prod, "topology": topo, "size": size, "centers": centers, "noise": rng.choice([0, 0, 0.1, 0.5]) if centers else 0,
                "seed": rng.randrange(1000), "die": rng.choice(["10x10", "5.5x3", "100x40"]), "via_main": rng.random() < 0.5}
    if prod == "floorset":
        return gen_floorset(rng)
    if prod == "netlist_writer":
        return {"cls": prod, "doc": gn.gen_netlist_doc(rng, max_modules=6, max_nets=5), "file": rng.random() < 0.3}
    if prod == "rect_get_netlist":
        a = au.gen_alloc(rng, max_cells=16, allow_fixed=False)
        a["form"] = "tree"
        if not any(c["a"] for c in a["cells"]):
            a["cells"][0]["a"] = {"M0": 0.5}
        return {"cls": prod, "alloc": a}
    if prod == "rect_solution":
        doc = gn.gen_netlist_doc(rng, max_modules=6, max_nets=5, need_centers=True)
        # boxes for some soft modules
        boxes = {}
        for name, m in doc["Modules"].items():
            if "area" in m and rng.random() < 0.6:
                k = rng.randint(1, 3)
                rects = gn.stog_rects(rng, "int", max_branches=1)[:k]
                boxes[name] = [r[:4] for r in rects]
        return {"cls": prod, "doc": doc, "boxes": boxes}
    c = _m["c09"].generate(rng, tier, i) if _m else None
    if c is None:
        from fv.props import c09
        c = c09.generate(rng, tier, i)
    c["cls"] = "legaliser"
    return c


def gen_floorset(rng):
    from fv.props import c15
    n = rng.randint(1, 5)
    fam = rng.choice(["int", "half", "dec_0.1", "int"])
    step = geo.FAMILIES[fam]
    blocks = []
    slot = 8
    for b in range(n):
        for _ in range(40):
            cells = c15._stog_cells(rng, rng.randint(1, 6), rng.randint(1, 6))
            v = c15.trace_outline(cells)
            if v is not None:
                break
        R = max(r for r, _ in cells) + 1
        ox, oy = step * (slot * b + 1), step * rng.choice([1, 2, 3])
        pts = [[geo.fl(ox + step * c), geo.fl(oy + step * (R - r))] for (r, c) in v]
        if rng.random() < 0.5:
            pts.reverse()
        pts.append(list(pts[0]))         # closed polygon
        blocks.append({"vertices": pts, "area": float(len(cells) * step * step), "fixed": rng.random() < 0.25, "preplaced": rng.random() < 0.2})
    W, H = geo.fl(step * (slot * n + 2)), geo.fl(step * 12)
    npins = rng.randint(1, 5)
    pins = [[W, H]] if rng.random() < 0.7 else [[W, 0.0], [0.0, H]]
    while len(pins) < npins:
        pins.append(rng.choice([[0.0, geo.fl(step * rng.randint(0, 12))], [W, geo.fl(step * rng.randint(0, 12))], [geo.fl(step * rng.randint(0, slot * n + 2)), 0.0],
                                [geo.fl(step * rng.randint(0, slot * n + 2)), H]]))
    b2b = []
    if n >= 2:
        for _ in range(rng.randint(0, 5)):
            a, b_ = rng.sample(range(n), 2)
            b2b.append([a, b_, rng.choice([0, 1, 2, 5, 16, 0.5])])
    p2b = [[rng.randrange(len(pins)), rng.randrange(n), rng.choice([0, 1, 3, 8])] for _ in range(rng.randint(0, 4))]
    density = rng.choice([None, None, 0.3, 1.0])
    if density and sum(e[2] for e in b2b + p2b) == 0:
        p2b.append([0, 0, 2])       # the density normalisation divides by the largest weight/perimeter ratio: needs one positive weight
    return {"cls": "floorset", "blocks": blocks, "pins": pins, "b2b": b2b, "p2b": p2b, "density": density,
            "terminals_as_modules": rng.random() < 0.3}


def directed():
    return [
        {"cls": "floorset", "blocks": [{"vertices": [[1.0, 1.0], [3.0, 1.0], [3.0, 2.0], [1.0, 2.0], [1.0, 1.0]], "area": 2.0, "fixed": False, "preplaced": False},
                                        {"vertices": [[5.0, 1.0], [6.0, 1.0], [6.0, 3.0], [5.0, 3.0], [5.0, 1.0]], "area": 2.0, "fixed": True, "preplaced": False}],
         "pins": [[8.0, 4.0], [0.0, 2.0]], "b2b": [[0, 1, 3]], "p2b": [[1, 0, 2]], "density": None, "terminals_as_modules": False},
        {"cls": "floorset", "blocks": [{"vertices": [[1.0, 1.0], [3.0, 1.0], [3.0, 2.0], [1.0, 2.0], [1.0, 1.0]], "area": 2.0, "fixed": False, "preplaced": False}],
         "pins": [[8.0, 4.0], [4.0, 2.0]], "b2b": [], "p2b": [[1, 0, 2]], "density": None, "terminals_as_modules": True},
        {"cls": "rect_solution", "doc": {"Modules": {"S": {"area": 4, "center": [1, 1]}, "T": {"terminal": True, "center": [0, 3]}, "H": {"hard": True, "rectangles": [[5.0, 5.0, 2.0, 2.0]]}},
                                         "Nets": [["S", "T", 2.5], ["S", "H"]]}, "boxes": {"S": [[1.0, 1.0, 2.0, 2.0]]}},
    ]


# ---------------------------------------------------------------------------------------------
def rel_eq(a, b, rel=1e-12):
    return abs(a - b) <= rel * max(abs(a), abs(b), 1e-300)


def scratch_file(name):
    return os.path.join(os.environ.get("FV_SCRATCH", "/tmp"), f"{name}_{os.getpid()}.yaml")


def die_snapshot(die):
    return {"size": (die.width, die.height), "ground": sorted(dieutil.rect_key(r) for r in die.ground_regions), "spec": sorted(dieutil.rect_key(r) for r in die.specialized_regions),
            "block": sorted(dieutil.rect_key(r) for r in die.blockages), "fixed": sorted(dieutil.rect_key(r) for r in die.fixed_regions)}


def check_die(case, ctx):
    p = "die"
    ok, res = ctx.call(dieutil.build_die, case["die"], "tree")
    if not ok:
        return ctx.violation("die:setup", f"{type(res).__name__}: {str(res)[:200]} :: {case['die']}")
    die, nl = res
    if case["split"] and (die.ground_regions or die.specialized_regions):
        die.split_refinable_regions(*case["split"])
    snap = die_snapshot(die)
    ctx.nontrivial(len(snap["ground"]) + len(snap["spec"]) + len(snap["block"]) >= 2)
    ok, t1 = ctx.call(die.write_yaml)
    ok2, t2 = ctx.call(die.write_yaml)
    if not (ok and ok2):
        return ctx.violation("die:write_raised", f"{t1!r} {t2!r}")
    ctx.count("twice_compared:" + p)
    if t1 != t2:
        ctx.violation("die:second_write_differs", f"{t1}\n---\n{t2}")
    ctx.count("source_unchanged_checked:" + p)
    if die_snapshot(die) != snap:
        ctx.violation("die:writer_altered_object", f"{case}")
    src = t1
    path = None
    if case["file"]:
        path = scratch_file("die")
        die.write_yaml(path)
        src = path
    try:
        _m["Rectangle"].undefine_epsilon()
        nl2 = None
        if nl is not None:
            nl2 = _m["Netlist"](gd.netlist_tree_for_fixed(case["die"]["fixed"]))
        ok, d2 = ctx.call(_m["Die"], src, nl2)
    finally:
        if path and os.path.exists(path):
            os.remove(path)
    if not ok:
        return ctx.violation("die:reader_rejects", f"{type(d2).__name__}: {str(d2)[:200]} :: document=\n{t1[:500]}")
    ctx.count("reread_compared:" + p)
    s2 = die_snapshot(d2)
    for key in ("size", "spec", "block", "fixed"):
        if s2[key] != snap[key]:
            ctx.violation("die:reread_differs", f"{key}: written {snap[key]} re-read {s2[key]}")
    # ground must cover the same region
    g1 = [XR.of(r) for r in die.ground_regions]
    g2 = [XR.of(r) for r in d2.ground_regions]
    a1, a2 = union_area(g1), union_area(g2)
    both = union_area(g1 + g2)
    tol = F(1e-9) * F(max(die.width, die.height)) ** 2
    if abs(a1 - a2) > tol or abs(both - a1) > tol:
        ctx.violation("die:ground_region_differs", f"ground covers {float(a1)} written, {float(a2)} re-read, union {float(both)}")


def alloc_snapshot(a):
    return [(ra.rect.center.x, ra.rect.center.y, ra.rect.shape.w, ra.rect.shape.h, ra.rect.region, tuple(sorted(ra.alloc.items())), ra.depth, bool(ra.rect.fixed)) for ra in a.allocations]


def check_allocation(case, ctx):
    p = "allocation"
    al = case["alloc"]
    ok, a = ctx.call(au.build_alloc, al)
    if not ok:
        return ctx.violation("allocation:setup", f"{type(a).__name__}: {str(a)[:200]}")
    for op in al["ops"]:
        if au.predicted_size(a, op) <= 200:
            ok, a = ctx.call(au.apply_op, a, op)
            if not ok:
                return ctx.violation("allocation:setup", f"{op} raised {a!r}")
    snap = alloc_snapshot(a)
    ctx.nontrivial(len(snap) >= 2)
    ok, t1 = ctx.call(a.write_yaml)
    ok2, t2 = ctx.call(a.write_yaml)
    if not (ok and ok2):
        return ctx.violation("allocation:write_raised", f"{t1!r} {t2!r}")
    ctx.count("twice_compared:" + p)
    if t1 != t2:
        ctx.violation("allocation:second_write_differs", "two writes differ")
    ctx.count("source_unchanged_checked:" + p)
    if alloc_snapshot(a) != snap:
        ctx.violation("allocation:writer_altered_object", f"{case}")
    src, path = t1, None
    if case["file"]:
        path = scratch_file("alloc")
        a.write_yaml(path)
        src = path
    try:
        _m["Rectangle"].undefine_epsilon()
        ok, b = ctx.call(_m["Allocation"], src)
    finally:
        if path and os.path.exists(path):
            os.remove(path)
    if not ok:
        return ctx.violation("allocation:reader_rejects", f"{type(b).__name__}: {str(b)[:200]} :: document=\n{t1[:400]}")
    ctx.count("reread_compared:" + p)
    s2 = alloc_snapshot(b)
    if [x[:7] for x in s2] != [x[:7] for x in snap]:
        ctx.violation("allocation:reread_differs", f"written {snap[:3]}... re-read {s2[:3]}...")


# ---- netgen ------------------------------------------------------------------------------------
def topology_problems(topo, size, doc):
    mods, nets = doc["Modules"], [list(e) for e in doc["Nets"]]
    names = list(mods)
    out = []

    def pair_multiset(ns):
        return sorted(tuple(sorted(e[:2])) for e in ns)
    if topo == "grid":
        r, c = size
        if len(names) != r * c:
            out.append(f"{len(names)} modules for a {r}x{c} grid")
        want = [(f"M{i}_{j}", f"M{i}_{j + 1}") for i in range(r) for j in range(c - 1)] + [(f"M{i}_{j}", f"M{i + 1}_{j}") for i in range(r - 1) for j in range(c)]
        if pair_multiset(nets) != sorted(tuple(sorted(e)) for e in want):
            out.append("nets are not the horizontal+vertical neighbour pairs")
        return out
    n = size[0]
    if topo == "htree":
        def cnt(L):
            return (1, 0) if L == 1 else (3 + 4 * cnt(L - 1)[0], 10 + 4 * cnt(L - 1)[1])
        wm, we = cnt(n)
        if len(names) != wm or len(nets) != we:
            out.append(f"h-tree of {n} levels has {len(names)} modules / {len(nets)} nets, definition {wm} / {we}")
        # connected, and weights are powers of two
        adj = {m_: set() for m_ in names}
        for e in nets:
            members = [x for x in e if isinstance(x, str)]
            ws = [x for x in e if not isinstance(x, str)]
            if len(members) != 2 or len(ws) != 1 or ws[0] <= 0 or math.log2(ws[0]) != int(math.log2(ws[0])):
                out.append(f"unexpected net {e}")
                continue
            adj[members[0]].add(members[1])
            adj[members[1]].add(members[0])
        seen, stack = {names[0]}, [names[0]]
        while stack:
            for y in adj[stack.pop()]:
                if y not in seen:
                    seen.add(y)
                    stack.append(y)
        if len(seen) != len(names):
            out.append("h-tree is not connected")
        return out
    if len(names) != n or names != [f"M{i}" for i in range(n)]:
        out.append(f"{len(names)} modules for size {n}")
    if topo == "chain":
        want = [(f"M{i}", f"M{i + 1}") for i in range(n - 1)]
    elif topo == "ring":
        want = [(f"M{i}", f"M{(i + 1) % n}") for i in range(n)]
    elif topo == "star":
        want = [("M0", f"M{i}") for i in range(1, n)]
    elif topo == "ring-star":
        ring = [(f"M{i}", f"M{i + 1}") for i in range(1, n - 1)] + [(f"M{n - 1}", "M1")]
        want = ring + [("M0", f"M{i}") for i in range(1, n)]
    else:  # one-net
        if len(nets) != 1 or sorted(nets[0]) != sorted(names):
            out.append("one-net: the single net does not connect all modules")
        return out
    if pair_multiset(nets) != sorted(tuple(sorted(e)) for e in want):
        out.append(f"{topo}: nets differ from the definition")
    return out


def check_netgen(case, ctx):
    p = "netgen"
    ng = _m["netgen"]
    topo, size = case["topology"], case["size"]
    import random
    from frame.geometry.geometry import Shape
    ctx.nontrivial(True)

    def produce():
        if case["centers"]:
            random.seed(case["seed"])
            d = _m["Die"](case["die"])
            shape = Shape(d.width, d.height)
        else:
            shape = None
        if topo == "grid":
            return ng.gen_grid(size[0], size[1], 1, case["centers"], case["noise"], shape)
        return {"chain": ng.gen_chain, "ring": ng.gen_ring, "star": ng.gen_star, "ring-star": ng.gen_ring_star, "one-net": ng.gen_one_net, "htree": ng.gen_htree}[topo](size[0], 1)
    ok, data = ctx.call(produce)
    if not ok:
        return ctx.violation("netgen:generator_raised", f"{topo} {size}: {type(data).__name__}: {data}")
    ctx.count("topology:" + topo)
    pr = topology_problems(topo, size, data)
    if pr:
        ctx.violation("netgen:topology", f"{topo} {size}: {pr}")
    snap = copy.deepcopy(data)
    path = scratch_file("netgen")
    path2 = scratch_file("netgen2")
    try:
        if case["via_main"]:
            args = ["-o", path, "--type", topo, "--size"] + [str(s) for s in size]
            if case["centers"]:
                args += ["--add-centers", "--die", case["die"], "--seed", str(case["seed"])]
                if case["noise"]:
                    args += ["--add-noise", str(case["noise"])]
            ok, r = ctx.call(ng.main, "netgen", args)
            ok2, r2 = ctx.call(ng.main, "netgen", args[:1] + [path2] + args[2:])
            if not (ok and ok2):
                return ctx.violation("netgen:main_raised", f"{args}: {r!r} {r2!r}")
            t1, t2 = open(path).read(), open(path2).read()
        else:
            from frame.utils.utils import write_yaml
            t1, t2 = write_yaml(data), write_yaml(produce())
            with open(path, "w") as f:
                f.write(t1)
        ctx.count("twice_compared:" + p)
        if t1 != t2:
            ctx.violation("netgen:second_document_differs", f"{topo} {size}")
        ctx.count("source_unchanged_checked:" + p)
        if data != snap:
            ctx.violation("netgen:writer_altered_object", f"{topo} {size}")
        _m["Rectangle"].undefine_epsilon()
        ok, nl = ctx.call(_m["Netlist"], path)
    finally:
        for q in (path, path2):
            if os.path.exists(q):
                os.remove(q)
    if not ok:
        return ctx.violation("netgen:reader_rejects", f"{topo} {size} centers={case['centers']}: {type(nl).__name__}: {str(nl)[:200]}")
    ctx.count("reread_compared:" + p)
    if [m.name for m in nl.modules] != list(data["Modules"]):
        ctx.violation("netgen:reread_differs", f"{topo} {size}: module names")
    for m in nl.modules:
        src = data["Modules"][m.name]
        if not m.is_soft or m.area() != src["area"] or (("center" in src) != (m.center is not None)) or \
                ("center" in src and not (rel_eq(m.center.x, src["center"][0]) and rel_eq(m.center.y, src["center"][1]))):
            ctx.violation("netgen:reread_differs", f"{topo} {size}: module {m.name}: {src} vs area={m.area()} centre={m.center}")
            break
    want = []
    for e in data["Nets"]:
        e = list(e)
        w = 1.0
        if not isinstance(e[-1], str):
            w = float(e.pop())
        want.append((e, w))
    got = [([b.name for b in e.modules], e.weight) for e in nl.edges]
    if got != want:
        ctx.violation("netgen:reread_differs", f"{topo} {size}: nets {got[:4]} vs {want[:4]}")


# ---- FloorSet ---------------------------------------------------------------------------------------
def check_floorset(case, ctx):
    p = "floorset"
    np = _m["np"]
    blocks = case["blocks"]
    n = len(blocks)
    maxv = max(len(b["vertices"]) for b in blocks) + 2
    vb = -np.ones((n, maxv, 2), dtype=float)
    for k, b in enumerate(blocks):
        vb[k, :len(b["vertices"]), :] = np.array(b["vertices"], dtype=float)
    pc = np.zeros((n, 5))
    for k, b in enumerate(blocks):
        pc[k, 0], pc[k, 1] = float(b["fixed"]), float(b["preplaced"])
    data = {
        "area_blocks": np.array([b["area"] for b in blocks], dtype=float),
        "b2b_connectivity": np.array(case["b2b"], dtype=float).reshape(-1, 3),
        "p2b_connectivity": np.array(case["p2b"], dtype=float).reshape(-1, 3),
        "pins_pos": np.array(case["pins"], dtype=float),
        "placement_constraints": pc,
        "vertex_blocks": vb,
        "metrics": np.array([0.0, float(len(case["pins"])), 0.0, 0.0]),
    }
    ctx.count("floorset_mode:" + ("terminals_as_modules" if case["terminals_as_modules"] else "terminals"))
    ok, inst = ctx.call(_m["FloorSet"], data, case["density"], case["terminals_as_modules"])
    if not ok:
        return ctx.violation("floorset:converter_raised", f"{type(inst).__name__}: {str(inst)[:200]} :: {case}")
    ctx.nontrivial(n + len(case["pins"]) >= 2)
    snap_mods = copy.deepcopy(inst.modules)
    snap_nets = [(list(e.modules), e.weight) for e in inst.nets]
    # the converted modules against the SOURCE instance (not against the converter's own state): block k is module Mk; a pre-placed
    # block is fixed (whatever its other flags), a fixed-shape block is hard, any other block is soft with the block's area
    for k, b in enumerate(blocks):
        src = snap_mods.get(f"M{k}")
        ctx.count("floorset_blocks_compared_with_source")
        if b["fixed"] and b["preplaced"]:
            ctx.count("floorset_blocks_with_both_flags")
        want_kind = "fixed" if b["preplaced"] else "hard" if b["fixed"] else "soft"
        got = None if src is None else ("fixed" if src.get("fixed") else "hard" if src.get("hard") else "soft")
        if got != want_kind:
            ctx.violation("floorset:kind_differs_from_source", f"block {k} (fixed-shape={b['fixed']}, pre-placed={b['preplaced']}) converted to {got}, expected {want_kind}")
        elif want_kind == "soft" and not rel_eq(float(src.get("area", -1)), b["area"]):
            ctx.violation("floorset:area_differs_from_source", f"block {k}: area {b['area']} converted to {src.get('area')}")
    ok, t1 = ctx.call(inst.write_yaml_FPEF)
    if not ok:
        return ctx.violation("floorset:write_raised", f"{t1!r}")
    ok, t2 = ctx.call(inst.write_yaml_FPEF)
    ctx.count("twice_compared:" + p)
    if not ok or t1 != t2:
        ctx.violation("floorset:second_write_differs", f"first:\n{t1[-300:]}\nsecond:\n{str(t2)[-300:]}")
    ctx.count("source_unchanged_checked:" + p)
    if inst.modules != snap_mods or [(list(e.modules), e.weight) for e in inst.nets] != snap_nets:
        ctx.violation("floorset:writer_altered_object", f"nets before {snap_nets} after {[(list(e.modules), e.weight) for e in inst.nets]}")
    _m["Rectangle"].undefine_epsilon()
    ok, nl = ctx.call(_m["Netlist"], t1)
    if not ok:
        return ctx.violation("floorset:reader_rejects", f"{type(nl).__name__}: {str(nl)[:200]} :: document=\n{t1[:600]}")
    ctx.count("reread_compared:" + p)
    if [m.name for m in nl.modules] != list(snap_mods):
        ctx.violation("floorset:reread_differs", "module names/order")
    for m in nl.modules:
        src = snap_mods[m.name]
        kind = "fixed" if src.get("fixed") else "hard" if src.get("hard") else "terminal" if src.get("terminal") else "soft"
        got_kind = "terminal" if m.is_terminal else "fixed" if m.is_fixed else "hard" if m.is_hard else "soft"
        if kind != got_kind:
            ctx.violation("floorset:reread_differs", f"{m.name}: written as {kind}, re-read as {got_kind}")
        rs = src.get("rectangles", [])
        if rs and isinstance(rs[0], (int, float)):
            rs = [rs]
        if sorted(tuple(r[:4]) for r in rs) != sorted(nu.rect_tuple(r)[:4] for r in m.rectangles):
            ctx.violation("floorset:reread_differs", f"{m.name}: rectangles {rs} vs {[nu.rect_tuple(r)[:4] for r in m.rectangles]}")
        if kind == "soft" and not rel_eq(m.area(), src["area"]):
            ctx.violation("floorset:reread_differs", f"{m.name}: area {src['area']} vs {m.area()}")
        if "center" in src and (m.center is None or abs(m.center.x - src["center"][0]) > 1e-9 * max(1, abs(src["center"][0])) or abs(m.center.y - src["center"][1]) > 1e-9 * max(1, abs(src["center"][1]))):
            ctx.violation("floorset:reread_differs", f"{m.name}: centre {src['center']} vs {m.center}")
    got = [([b.name for b in e.modules], e.weight) for e in nl.edges]
    if len(got) != len(snap_nets) or any(g[0] != s[0] or not rel_eq(g[1], s[1]) for g, s in zip(got, snap_nets)):
        ctx.violation("floorset:reread_differs", f"nets written {snap_nets} re-read {got}")
    # die document
    ok, dt = ctx.call(inst.write_yaml_DIEF)
    ok2, d = ctx.call(_m["Die"], dt) if ok else (False, None)
    if not (ok and ok2) or (d.width, d.height) != inst.shape:
        ctx.violation("floorset:die_document", f"DIEF {dt!r} -> {d!r}, shape {inst.shape}")


# ---- rect_io -------------------------------------------------------------------------------------------
def check_rect_get_netlist(case, ctx):
    p = "rect_get_netlist"
    al = case["alloc"]
    tree = [[list(c["r"]), dict(c["a"])] for c in al["cells"]]
    _m["Rectangle"].undefine_epsilon()
    ok, a = ctx.call(_m["Allocation"], copy.deepcopy(tree))
    if not ok:
        return ctx.violation("rect_get_netlist:setup", f"{a!r}")
    mods = sorted({m for c in al["cells"] for m in c["a"]})
    ctx.nontrivial(len(mods) >= 2)
    snap = copy.deepcopy(tree)
    ok, nl = ctx.call(_m["rio"].get_netlist, None, tree)
    ctx.count("source_unchanged_checked:" + p)
    if tree != snap:
        ctx.violation("rect_get_netlist:altered_source", "the allocation tree was altered")
    if not ok:
        return ctx.violation("rect_get_netlist:reader_rejects", f"{type(nl).__name__}: {str(nl)[:300]} :: cells={al['cells']}")
    ok, nl2 = ctx.call(_m["rio"].get_netlist, None, tree)
    ctx.count("twice_compared:" + p)
    if not ok or nu.summary(nl2) != nu.summary(nl):
        ctx.violation("rect_get_netlist:second_differs", "two calls give different netlists")
    ctx.count("reread_compared:" + p)
    scale = max(al["ext"])
    if sorted(m.name for m in nl.modules) != mods:
        ctx.violation("rect_get_netlist:reread_differs", f"modules {[m.name for m in nl.modules]} vs allocation {mods}")
        return
    for m in nl.modules:
        ar, c = a.area(m.name), a.center(m.name)
        if not m.is_soft or abs(m.area() - ar) > 1e-9 * max(abs(ar), 1e-300) or m.center is None or abs(m.center.x - c.x) > 1e-9 * (scale + abs(c.x)) or abs(m.center.y - c.y) > 1e-9 * (scale + abs(c.y)):
            ctx.violation("rect_get_netlist:reread_differs", f"{m.name}: allocation area {ar} centre {c}; netlist area {m.area()} centre {m.center}")


def check_rect_solution(case, ctx):
    p = "rect_solution"
    ok, nl = ctx.call(nu.load, case["doc"])
    if not ok:
        return ctx.violation("rect_solution:setup", f"{nl!r} :: {case['doc']}")
    boxes = {k: [tuple(b) for b in v] for k, v in case["boxes"].items() if k in {m.name for m in nl.modules}}
    before = nu.summary(nl)
    ctx.nontrivial(nl.num_modules >= 2)
    ok, t1 = ctx.call(_m["rio"].solution_to_netlist, nl, boxes)
    ok2, t2 = ctx.call(_m["rio"].solution_to_netlist, nl, boxes)
    if not (ok and ok2):
        # modules with neither rectangles nor centre cannot be described by this producer (it raises): not a document
        ctx.count("rect_solution_refused")
        ctx.count("twice_compared:" + p)
        ctx.count("source_unchanged_checked:" + p)
        ctx.count("reread_compared:" + p)
        return
    ctx.count("twice_compared:" + p)
    if t1 != t2:
        ctx.violation("rect_solution:second_differs", "two calls differ")
    ctx.count("source_unchanged_checked:" + p)
    if nu.summary(nl) != before:
        ctx.violation("rect_solution:altered_source", "netlist altered")
    ok, n2 = ctx.call(nu.load, t1)
    if not ok:
        return ctx.violation("rect_solution:reader_rejects", f"{type(n2).__name__}: {str(n2)[:200]} :: document=\n{t1[:700]}")
    ctx.count("reread_compared:" + p)
    after = nu.summary(n2)
    if [m["name"] for m in after["modules"]] != [m["name"] for m in before["modules"]]:
        return ctx.violation("rect_solution:reread_differs", "module names")
    for b, a in zip(before["modules"], after["modules"]):
        if {k: b["kind"][k] for k in ("soft", "hard", "fixed", "terminal")} != {k: a["kind"][k] for k in ("soft", "hard", "fixed", "terminal")}:
            ctx.violation("rect_solution:reread_differs", f"{b['name']}: kind {b['kind']} -> {a['kind']}")
        want_rects = [tuple(map(float, x)) for x in boxes[b["name"]]] if b["name"] in boxes else [r[:4] for r in b["rectangles"]]
        if sorted(want_rects) != sorted(r[:4] for r in a["rectangles"]):
            ctx.violation("rect_solution:reread_differs", f"{b['name']}: rectangles {want_rects} -> {[r[:4] for r in a['rectangles']]}")
        if b["kind"]["soft"] and not rel_eq(b["area"], a["area"], 1e-9):
            ctx.violation("rect_solution:reread_differs", f"{b['name']}: area {b['area']} -> {a['area']}")
    if len(before["nets"]) != len(after["nets"]) or any(x["members"] != y["members"] or not rel_eq(x["weight"], y["weight"]) for x, y in zip(before["nets"], after["nets"])):
        ctx.violation("rect_solution:reread_differs", f"nets {before['nets']} -> {after['nets']}")


def check_legaliser(case, ctx):
    p = "legaliser"
    c09 = _m["c09"]
    ok, res = ctx.call(c09.build, case)
    if not ok:
        return ctx.violation("legaliser:setup", f"{type(res).__name__}: {str(res)[:200]}")
    nl, m = res
    try:
        ctx.nontrivial(True)
        before = nu.summary(nl)
        with contextlib.redirect_stdout(io.StringIO()):
            ok, n1 = ctx.call(m.get_netlist)
            ok2, n2 = ctx.call(m.get_netlist)
        if not ok:
            return ctx.violation("legaliser:reader_rejects", f"{type(n1).__name__}: {str(n1)[:300]}")
        ctx.count("twice_compared:" + p)
        if not ok2 or nu.summary(n1) != nu.summary(n2):
            ctx.violation("legaliser:second_differs", "two calls differ")
        ctx.count("source_unchanged_checked:" + p)
        if nu.summary(nl) != before:
            ctx.violation("legaliser:altered_source", "source netlist altered")
        ctx.count("reread_compared:" + p)
        after = nu.summary(n1)
        if [x["name"] for x in after["modules"]] != [x["name"] for x in before["modules"]]:
            return ctx.violation("legaliser:reread_differs", "module names")
        for b, a in zip(before["modules"], after["modules"]):
            kb = {k: b["kind"][k] for k in ("soft", "hard", "fixed")}
            ka = {k: a["kind"][k] for k in ("soft", "hard", "fixed")}
            if kb != ka:
                ctx.violation("legaliser:reread_differs", f"{b['name']}: kind {kb} -> {ka}")
            if sorted(r[:4] for r in b["rectangles"]) != sorted(r[:4] for r in a["rectangles"]):
                ctx.violation("legaliser:reread_differs", f"{b['name']}: rectangles {b['rectangles']} -> {a['rectangles']}")
            if b["kind"]["soft"] and not rel_eq(b["area"], a["area"], 1e-9):
                ctx.violation("legaliser:reread_differs", f"{b['name']}: area {b['area']} -> {a['area']}")
        if len(before["nets"]) != len(after["nets"]) or any(x["members"] != y["members"] or not rel_eq(x["weight"], y["weight"]) for x, y in zip(before["nets"], after["nets"])):
            ctx.violation("legaliser:reread_differs", f"nets {before['nets']} -> {after['nets']}")
    finally:
        c09.cleanup(m)


def check_netlist_writer(case, ctx):
    """the document every placement stage finally emits (spectral, force, legaliser, ... end with netlist.write_yaml)"""
    p = "netlist_writer"
    ok, n1 = ctx.call(nu.load, case["doc"])
    if not ok:
        return ctx.violation("netlist_writer:setup", f"{type(n1).__name__}: {str(n1)[:200]} :: {case['doc']}")
    ctx.nontrivial(n1.num_modules >= 2)
    before = nu.summary(n1)
    ok, t1 = ctx.call(n1.write_yaml)
    ok2, t2 = ctx.call(n1.write_yaml)
    if not (ok and ok2):
        return ctx.violation("netlist_writer:write_raised", f"{t1!r} {t2!r}")
    ctx.count("twice_compared:" + p)
    if t1 != t2:
        ctx.violation("netlist_writer:second_write_differs", "two writes differ")
    ctx.count("source_unchanged_checked:" + p)
    if nu.summary(n1) != before:
        ctx.violation("netlist_writer:writer_altered_object", "the netlist was altered by writing it")
    src, via, path = t1, "tree", None
    if case["file"]:
        src, via = t1, "file"
    ok, n2 = ctx.call(nu.load, src, via)
    if not ok:
        return ctx.violation("netlist_writer:reader_rejects", f"{type(n2).__name__}: {str(n2)[:200]} :: document=\n{t1[:500]}")
    ctx.count("reread_compared:" + p)
    for dmsg in nu.diff_summaries(before, nu.summary(n2))[:3]:
        ctx.violation("netlist_writer:reread_differs", f"{dmsg} :: doc={case['doc']}")


_failed_write_done = [0]


def provoke_failed_write(ctx):
    """a write that fails (unwritable path / undumpable value) earlier in the process: later documents must be unaffected"""
    from frame.utils.utils import write_yaml
    for bad in (lambda: write_yaml({"width": 1, "height": 2}, "/nonexistent_dir_fv/x.yaml"), lambda: write_yaml({"k": object()})):
        try:
            bad()
        except Exception:  # noqa
            pass
    ctx.count("failed_writes_provoked_earlier")


def check(case, ctx):
    _failed_write_done[0] += 1
    if _failed_write_done[0] % 7 == 3:
        provoke_failed_write(ctx)
    {"netlist_writer": check_netlist_writer, "die": check_die, "allocation": check_allocation, "netgen": check_netgen, "floorset": check_floorset, "rect_get_netlist": check_rect_get_netlist,
     "rect_solution": check_rect_solution, "legaliser": check_legaliser}[case["cls"]](case, ctx)
