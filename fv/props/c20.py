"""C20 - Results do not depend on what the process did before.

Monitor (fork-pair differential): the worker process imports every FRAME module and never executes an
operation (its state carriers are asserted pristine before every fork).  For each case it forks child A
(probe only) and child B (a random history of operations on unrelated designs of comparable scale, then
the probe); both return a canonical digest of the probe's observable result over a pipe; the digests
must be equal.  A periodic real fresh interpreter cross-checks 'forked from a pristine parent' ==
'fresh interpreter'.  A difference is attributed to the recorded known finding (set-once class-wide
Rectangle tolerance) ONLY if a third child, which forces the tolerance the history left behind and then
runs the probe alone, reproduces the after-history digest exactly; anything else is a violation."""
import copy
import json
import os
import select
import signal
import subprocess
import sys
import time

from fv import histops as ho

ID = "C20"
RULE = ("probes: netlist load (accept/reject + summary), die decomposition, die refinement, allocation refine/griddify/uniform, orthogon recognition, PB encoding (projected model set), legaliser "
        "model construction (truth vector of all equations), grid decomposition; probe designs include a near-threshold class (overlaps / gaps of 1e-9..1e-3 relative); histories: 3-15 random operations "
        "of the same repertoire on unrelated designs scaled to 1e-3..1e3 x the probe's size (both extremes forced), including rejected designs and PB encodings sharing variable names; "
        "non-trivial = history of >=3 operations; distinct = distinct (probe, history)")
ASSUMPTIONS = [
    "digests ignore legitimately history-dependent names (ROBDD node ids, auxiliary SAT variables, GEKKO paths); numbers are rounded to 9 significant digits; rejections are compared by exception class",
    "'fresh interpreter' is emulated by forking a parent that has imported everything and executed nothing; every 40th case is cross-checked against a real fresh interpreter",
    "state that never influences any probed operation is invisible (and harmless by the property's wording)",
]
CASES = {"quick": 960, "thorough": 40000}
MIN_CASES = {"quick": 240, "thorough": 10000}
REQUIRED_COUNTERS = ["pairs_compared", "parent_pristine_checked", "fresh_interpreter_crosschecks", "probe:netlist", "probe:die", "probe:die_refine", "probe:alloc", "probe:stog",
                     "probe:pb", "probe:legal", "probe:strop", "near_threshold_probes", "history_ops_executed", "history_scale_extreme_low", "history_scale_extreme_high", "history_near_copies_of_the_probe", "history_same_design_loaded_and_mutated", "probe:heule_deep", "long_sessions", "history_with_yaml_1.1_directive"]
SOFT_DEADLINE = {"quick": 240, "thorough": 3300}
KINDS = ["netlist", "die", "die_refine", "alloc", "stog", "pb", "strop", "legal"]


def setup(ctx):
    # import everything, execute nothing
    import frame.die.die  # noqa
    import frame.allocation.allocation  # noqa
    import frame.netlist.netlist  # noqa
    import tools.rect.satmanager  # noqa
    import tools.rect.pseudobool  # noqa
    import tools.legalfloor.legalfloor  # noqa
    import tools.legalfloor.expression_tree  # noqa
    import tools.floorset_parser.floor_set_manager.strop  # noqa
    import pysat.solvers  # noqa
    from fv.props import c07, c09  # noqa
    from fv import netutil, allocutil  # noqa


def pristine_problems():
    from frame.geometry.geometry import Rectangle
    import tools.rect.pseudobool as pb
    import tools.legalfloor.expression_tree as et
    out = []
    if Rectangle.epsilon_defined():
        out.append("Rectangle tolerance defined in the parent")
    if pb.memory != [0, 1] or pb.mmap:
        out.append("ROBDD store not pristine in the parent")
    if hasattr(et, "epsilon") or et.named_variables:
        out.append("legaliser registers not pristine in the parent")
    return out


# ---------------------------------------------------------------------------------------------
# generators
# ---------------------------------------------------------------------------------------------
def gen_op(rng, kind, near=False):
    from fv.gen import dies as gd, netlists as gn
    from fv import allocutil as au
    from fv.props import c07, c09, c15
    if kind == "netlist":
        if near:
            s = rng.choice([1.0, 1.0, 10.0, 0.1])
            d = rng.choice([1e-9, 1e-7, 1e-5, 1e-4, 1e-3]) * s
            return {"k": kind, "doc": {"Modules": {"H": {"hard": True, "rectangles": [[2 * s, 2 * s, 2 * s, 2 * s], [4 * s - d, 2 * s, 2 * s, 1 * s]]},
                                                   "S": {"area": s * s, "center": [s, s]}}, "Nets": [["H", "S"]]}}
        op = {"k": kind, "doc": gn.gen_netlist_doc(rng, max_modules=5, max_nets=4)}
        if rng.random() < 0.5:
            op["as_text"] = rng.choice(["block", "flow"])
        return op
    if kind in ("die", "die_refine"):
        d = gd.gen_die(rng, max_n=6)
        slim = {k: d[k] for k in ("fam", "W", "H", "regions", "fixed", "struct")}
        if near and slim["regions"]:
            r = slim["regions"][0]
            dd = rng.choice([1e-9, 1e-6, 1e-4]) * max(slim["W"], slim["H"])
            if r[0] + r[2] / 2 + dd <= slim["W"]:
                r[0] += dd
        op = {"k": kind, "die": slim}
        if kind == "die_refine":
            op.update(r=rng.choice([1.5, 2, 3]), n=rng.choice([2, 4, 9]))
        return op
    if kind == "alloc":
        a = au.gen_alloc(rng, max_cells=12)
        a["form"] = "tuples" if any(c["f"] for c in a["cells"]) else "tree"
        a["ops"] = a["ops"][:2]
        if near and len(a["cells"]) >= 2:
            s = max(a["ext"])
            a["cells"][0]["r"][0] += rng.choice([1e-9, 1e-6, 1e-4, -1e-6]) * s
            if a["cells"][0]["r"][0] - a["cells"][0]["r"][2] / 2 < 0:
                a["cells"][0]["r"][0] = a["cells"][0]["r"][2] / 2
        return {"k": kind, "alloc": a}
    if kind == "stog":
        rects = gn.stog_rects(rng, rng.choice(["int", "dec_0.1", "half", "large_1e3"]), max_branches=2)
        if near and len(rects) >= 2:
            k = rng.randrange(1, len(rects))
            s = max(max(r[2], r[3]) for r in rects)
            d = rng.choice([1e-9, 1e-7, 1e-5, 1e-4]) * s
            rects[k][rng.choice([0, 1])] += rng.choice([d, -d])
            rects = [[abs(v) if j < 2 else v for j, v in enumerate(r)] for r in rects]
        return {"k": kind, "rects": rects}
    if kind == "pb":
        nv = rng.randint(1, 6)
        return {"k": kind, "nv": nv, "cons": [c07.gen_constraint(rng, nv) for _ in range(rng.randint(1, 3))]}
    if kind == "strop":
        R, C = rng.randint(1, 6), rng.randint(1, 6)
        cells = c15._stog_cells(rng, R, C)
        if rng.random() < 0.4:
            cells ^= {(rng.randrange(R), rng.randrange(C))}
        return {"k": kind, "grid": c15._grid_str(cells, R, C)}
    case = c09.generate(rng, "quick", rng.randrange(1000))
    return {"k": "legal", "case": case}


def near_copy(rng, probe):
    """a different design that shares most of its shape data with the probe (same rectangle sizes / names / grid, something moved):
    what a cache keyed too coarsely would confuse with the probe"""
    import copy
    op = copy.deepcopy(probe)
    k = op["k"]
    try:
        if k == "stog" and len(op["rects"]) >= 2:
            j = rng.randrange(1, len(op["rects"]))
            s = max(max(r[2], r[3]) for r in op["rects"])
            op["rects"][j][0] += rng.choice([2, 3]) * s            # a branch torn off: same sizes, no longer an orthogon
        elif k == "netlist":
            for m in op["doc"]["Modules"].values():
                rs = m.get("rectangles")
                if rs and not isinstance(rs[0], (int, float)) and len(rs) >= 2:
                    s = max(max(r[2], r[3]) for r in rs)
                    rs[-1][1] += 3 * s
                if "center" in m:
                    m["center"] = [m["center"][1], m["center"][0]]
        elif k in ("die", "die_refine"):
            for r in op["die"]["regions"]:
                r[0], r[1] = r[1], r[0]                               # regions mirrored on the diagonal (often invalid: a rejected design in the history)
            op["die"]["W"], op["die"]["H"] = op["die"]["H"], op["die"]["W"]
            for r in op["die"]["regions"]:
                r[2], r[3] = r[3], r[2]
            op["die"]["fixed"] = {}
        elif k == "alloc":
            for c in op["alloc"]["cells"]:
                c["a"] = {m: round(rng.random(), 2) for m in c["a"]}
                c["d"] = rng.choice([0, 1, 2])
        elif k == "strop":
            rows = [list(r) for r in op["grid"].split()]
            r_, c_ = rng.randrange(len(rows)), rng.randrange(len(rows[0]))
            rows[r_][c_] = "0" if rows[r_][c_] == "1" else "1"
            op["grid"] = " ".join("".join(r) for r in rows)
        elif k == "pb":
            for c in op["cons"]:
                if c["k"] == "pb":
                    c["bound"] += rng.choice([-2, -1, 1, 2])
                    c["decomp"] = not c["decomp"]
        elif k == "legal":
            op["case"]["limit"] = rng.choice([1.5, 2, 3])
            for m in op["case"]["mods"]:
                if m["kind"] == "soft" and len(m["rects"]) > 1:
                    m["rects"] = m["rects"][:-1]
    except Exception:  # noqa
        return None
    return op


def generate(rng, tier, i):
    if i % 40 == 23:
        # a deep-recursion operation probed after histories with very large encodings (interpreter-wide settings must not leak)
        probe = {"k": "heule_deep", "n": rng.choice([600, 1500, 1900, 2500])}
        hist = [gen_op(rng, rng.choice(["strop", "pb", "die"])) for _ in range(rng.randint(2, 5))]
        for _ in range(rng.randint(1, 2)):
            hist.insert(rng.randint(0, len(hist)), {"k": "pb_big", "n": rng.choice([300, 450, 700]), "bound": rng.choice([1, 2, 3]), "decomp": rng.random() < 0.3})
        return {"cls": "heule_deep", "probe": probe, "history": hist, "crosscheck": False}
    if i % 37 == 31:
        # a long session: the probe itself first, then hundreds of encodings of other designs (process-wide stores that are
        # evicted / restarted / capped after many entries), then the probe
        nv = rng.randint(6, 9)
        cons = []
        for _ in range(rng.randint(1, 2)):
            terms = [[rng.randint(3, 60), v, True] for v in rng.sample(range(nv), rng.randint(5, nv))]
            cons.append({"k": "pb", "terms": terms, "op": rng.choice([">=", "<="]), "bound": sum(t[0] for t in terms) // 2, "decomp": rng.random() < 0.3, "variant": 0})
        probe = {"k": "pb", "nv": nv, "cons": cons}      # a diagram with a few dozen nodes
        hist = [copy.deepcopy(probe), {"k": "pb_many", "count": rng.choice([450, 600]), "nv": 14, "seed": rng.randrange(1 << 30), "op_limit": 60.0}]
        if rng.random() < 0.5:
            hist.append(gen_op(rng, "pb"))
        return {"cls": "long_session", "probe": probe, "history": hist, "crosscheck": False}
    kind = KINDS[i % len(KINDS)] if (i % 40) != 39 else "legal"
    if kind == "legal" and (i % 40) != 39 and rng.random() < 0.7:
        kind = rng.choice(KINDS[:-1])
    near = kind in ("netlist", "die", "alloc", "stog") and rng.random() < 0.3   # (a shifted region leaves a sliver that die refinement would halve 2^k times)
    probe = gen_op(rng, kind, near)
    pdim = ho.dimension(probe) or 1.0
    nh = rng.randint(3, 15)
    hist = []
    extremes = [1.2e-3, 0.8e3]
    for h in range(nh):
        hk = rng.choice(["netlist", "die", "die", "die_refine", "alloc", "stog", "pb", "pb", "strop"] + (["legal"] if rng.random() < 0.05 else []))
        hop = gen_op(rng, hk, near=rng.random() < 0.1)
        hdim = ho.dimension(hop)
        if hdim and hk != "legal":
            target = extremes.pop() if extremes and h < 4 else 10 ** rng.uniform(-3, 3)
            f = pdim * target / hdim
            hop = ho.scale_op(hop, f)
            hop["_rel_scale"] = target
        elif hk == "legal" and hdim and not (1e-3 <= hdim / pdim <= 1e3):
            continue
        hist.append(hop)
    if rng.random() < 0.4:
        # the same design loaded earlier and then altered through the API (exposes parsed objects shared between loads)
        hist.insert(rng.randint(0, len(hist)), {"k": "mutate_same", "probe": probe})
    if rng.random() < 0.5:
        for _ in range(rng.randint(1, 2)):
            nc = near_copy(rng, probe)
            if nc is not None:
                nc["_near_copy"] = True
                hist.insert(rng.randint(0, len(hist)), nc)
    if kind == "legal":
        # the carriers of legaliser state (process-wide slack, variable registries, default arguments) only matter if a model was built before
        for _ in range(rng.randint(1, 2)):
            hist.insert(rng.randint(0, len(hist)), gen_op(rng, "legal"))
    if kind == "pb" and rng.random() < 0.5:
        # history encodings sharing the probe's variable names (and some of its inequalities)
        for c in probe["cons"]:
            if c["k"] == "pb":
                hist.insert(rng.randint(0, len(hist)), {"k": "pb", "nv": probe["nv"], "cons": [dict(c, bound=c["bound"] + rng.choice([-1, 0, 1]))]})
    if kind == "netlist" and probe.get("as_text") and rng.random() < 0.5:
        # an older document with a '%YAML 1.1' directive was read earlier in the session (plain names: valid under both dialects)
        hist.insert(rng.randint(0, len(hist)), {"k": "netlist", "doc": YAML11_DOC, "as_text": "block", "directive": "1.1"})
    return {"cls": ("near:" if near else "") + kind, "probe": probe, "history": hist, "crosscheck": i % 40 == 7}


def directed():
    big = {"k": "die", "die": {"fam": "int", "W": 5000.0, "H": 5000.0, "regions": [], "fixed": {}, "struct": "directed"}}
    # witnesses of the recorded known finding (set-once class-wide tolerance): answers flip after a 5000x5000 die was loaded first
    return [
        {"cls": "near:netlist", "probe": {"k": "netlist", "doc": {"Modules": {"H": {"hard": True, "rectangles": [[5.0, 5.0, 2.0, 2.0], [6.9999, 5.0, 2.0, 1.0]]}}, "Nets": []}},
         "history": [big, {"k": "strop", "grid": "11 10"}, {"k": "pb", "nv": 2, "cons": [{"k": "clause", "lits": [[0, True], [1, False]]}]}], "crosscheck": True},
        {"cls": "near:stog", "probe": {"k": "stog", "rects": [[5.0, 5.0, 4.0, 2.0], [5.0, 6.500000001, 2.0, 1.0]]},
         "history": [big, {"k": "strop", "grid": "1"}, {"k": "strop", "grid": "11"}], "crosscheck": False},
        {"cls": "near:alloc", "probe": {"k": "alloc", "alloc": {"form": "tree", "ops": [], "cells": [{"r": [5.0, 5.0, 2.0, 2.0], "a": {"M": 0.5}, "d": 0, "f": False},
                                                                                             {"r": [6.9999, 5.0, 2.0, 2.0], "a": {"M": 0.2}, "d": 0, "f": False}]}},
         "history": [big, {"k": "strop", "grid": "1"}, {"k": "strop", "grid": "11"}], "crosscheck": False},
    ]


# ---------------------------------------------------------------------------------------------
# fork machinery
# ---------------------------------------------------------------------------------------------
def child(fn, timeout=120.0):
    """runs fn() in a forked child; returns (json result | None, note)"""
    r, w = os.pipe()
    pid = os.fork()
    if pid == 0:
        try:
            os.close(r)
            devnull = os.open(os.devnull, os.O_WRONLY)
            os.dup2(devnull, 1)
            os.dup2(devnull, 2)
            try:
                res = fn()
                payload = json.dumps({"res": res}, default=str)
            except BaseException as e:  # noqa
                payload = json.dumps({"crash": f"{type(e).__name__}: {e}"})
            with os.fdopen(w, "w") as f:
                f.write(payload)
        finally:
            os._exit(0)
    os.close(w)
    chunks = []
    deadline = time.time() + timeout
    note = None
    with os.fdopen(r, "rb") as f:
        while True:
            left = deadline - time.time()
            if left <= 0:
                os.kill(pid, signal.SIGKILL)
                note = "timeout"
                break
            ready, _, _ = select.select([f], [], [], min(left, 5.0))
            if ready:
                b = os.read(f.fileno(), 1 << 16)
                if not b:
                    break
                chunks.append(b)
    os.waitpid(pid, 0)
    if note:
        return None, note
    try:
        doc = json.loads(b"".join(chunks).decode())
    except Exception:  # noqa
        return None, "no result from child"
    if "crash" in doc:
        return None, "child crashed: " + doc["crash"]
    return doc["res"], None


def tolerance_state():
    from frame.geometry.geometry import Rectangle
    return [Rectangle._distance_epsilon, Rectangle._area_epsilon]


PROBE_LIMIT, HISTORY_LIMIT = 12.0, 3.0


def run_probe_only(probe):
    dg = ho.run_op(probe, PROBE_LIMIT)
    return {"digest": dg, "tolerance_after_probe": tolerance_state()}


def run_history_then_probe(history, probe):
    n = 0
    for h in history:
        ho.run_op(h, h.get("op_limit", HISTORY_LIMIT))
        n += 1
    tol = tolerance_state()
    return {"digest": ho.run_op(probe, PROBE_LIMIT), "tolerance_before_probe": tol, "history_ops": n}


def run_probe_with_forced_tolerance(probe, tol):
    from frame.geometry.geometry import Rectangle
    if tol[0] >= 0:
        Rectangle.set_epsilon(tol[0], tol[1])
    return {"digest": ho.run_op(probe, PROBE_LIMIT)}


def fresh_interpreter(probe):
    code = ("import sys, json; sys.path.insert(0, %r); sys.path.insert(0, %r)\n"
            "from fv import core; core.activate_repo()\n"
            "from fv import histops as ho\n"
            "print('FVRESULT' + json.dumps(ho.run_op(json.loads(sys.stdin.read())), default=str))\n") % (os.path.dirname(os.path.dirname(os.path.dirname(os.path.abspath(__file__)))), "")
    env = dict(os.environ)
    env["PYTHONHASHSEED"] = "0"
    p = subprocess.run([sys.executable, "-c", code], input=json.dumps(probe), capture_output=True, text=True, timeout=300, env=env)
    for line in p.stdout.splitlines():
        if line.startswith("FVRESULT"):
            return json.loads(line[len("FVRESULT"):])
    raise RuntimeError("fresh interpreter gave no result: " + p.stderr[-500:])


YAML11_DOC = {"Modules": {"A": {"area": 4, "center": [1, 1]}, "B": {"area": 9, "center": [5, 2]}}, "Nets": [["A", "B", 3]]}


def check(case, ctx):
    probe, history = case["probe"], case["history"]
    if any(h.get("directive") for h in history):
        ctx.count("history_with_yaml_1.1_directive")
    ctx.count("parent_pristine_checked")
    pp = pristine_problems()
    if pp:
        from fv.core import HarnessError
        raise HarnessError("; ".join(pp))
    ctx.count("probe:" + probe["k"])
    if case["cls"].startswith("near:"):
        ctx.count("near_threshold_probes")
    if case["cls"] == "long_session":
        ctx.count("long_sessions")
    ctx.nontrivial(len(history) >= 3)
    for h in history:
        if h.get("_near_copy"):
            ctx.count("history_near_copies_of_the_probe")
        if h.get("k") == "mutate_same":
            ctx.count("history_same_design_loaded_and_mutated")
        rs = h.get("_rel_scale")
        if rs is not None and rs < 2e-3:
            ctx.count("history_scale_extreme_low")
        if rs is not None and rs > 5e2:
            ctx.count("history_scale_extreme_high")
    t_case = time.time()
    a, na = child(lambda: run_probe_only(probe))
    b, nb = child(lambda: run_history_then_probe(history, probe))
    if a is None or b is None:
        ctx.gray("child_failed:" + str(na or nb)[:40])
        return
    if time.time() - t_case > 8:
        ctx.extra.setdefault("slow_cases", []).append([case["cls"], round(time.time() - t_case, 1), json.dumps(probe)[:300], json.dumps(a["digest"])[:60]])
    ctx.count("history_ops_executed", b["history_ops"])
    ctx.count("pairs_compared")
    ctx.count("probe_outcome:" + ("accepted" if "ok" in a["digest"] else "rejected"))
    if case.get("crosscheck"):
        ctx.count("fresh_interpreter_crosschecks")
        try:
            fr = fresh_interpreter(probe)
            if fr != a["digest"]:
                ctx.violation("fork_is_not_fresh", f"a real fresh interpreter gives {json.dumps(fr)[:300]} but the pristine-parent fork gives {json.dumps(a['digest'])[:300]} for probe {json.dumps(probe)[:300]}")
        except Exception as e:  # noqa
            ctx.gray("fresh_interpreter_failed")
    if a["digest"] == b["digest"]:
        return
    # attribute to the set-once tolerance only if forcing that tolerance on a fresh probe reproduces the after-history answer
    tol = b["tolerance_before_probe"]
    c, nc = child(lambda: run_probe_with_forced_tolerance(probe, tol))
    # ... and only a tolerance the library itself sets for a design (area tolerance = sqrt(distance tolerance)): a history that leaves
    # behind any other pair of values is a different defect, not the recorded one
    import math
    consistent = tol[0] >= 0 and abs(tol[1] - math.sqrt(tol[0])) <= 1e-9 * max(tol[1], 1e-300)
    # ... and it must be the VALUE of the tolerance that matters, not merely the fact that one is already defined: forcing the tolerance
    # the probe's own design sets in a fresh process must reproduce the fresh answer
    own = a.get("tolerance_after_probe", [-1.0, -1.0])
    value_matters = True
    if own[0] >= 0:
        d4, nd = child(lambda: run_probe_with_forced_tolerance(probe, own))
        value_matters = d4 is not None and d4["digest"] == a["digest"]
    explained = c is not None and c["digest"] == b["digest"] and consistent and value_matters
    ctx.violation("history_changes_result",
                  f"probe {probe['k']} gives {json.dumps(a['digest'])[:250]} alone but {json.dumps(b['digest'])[:250]} after {len(history)} operations "
                  f"(tolerance left behind: {tol}); probe={json.dumps(probe)[:400]}",
                  explained_by_forced_tolerance=bool(explained), tolerance=tol)


def classify(case, vio):
    if vio["kind"] == "history_changes_result" and vio["detail"].get("explained_by_forced_tolerance") is True:
        return "C20-tolerance-set-once"
    return None
