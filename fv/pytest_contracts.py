"""pytest plugin: runs the repository's own test-suite with the in-situ Rectangle contracts switched on
(`-p fv.pytest_contracts`); results go to the JSON file named by FV_CONTRACT_OUT."""
import json
import os


def pytest_configure(config):
    from fv import contracts
    config._fv_how = contracts.install()


def pytest_sessionfinish(session, exitstatus):
    from fv import contracts
    out = os.environ.get("FV_CONTRACT_OUT")
    if out:
        with open(out, "w") as f:
            json.dump({"how": getattr(session.config, "_fv_how", "?"), "evaluations": contracts.EVALUATIONS, "violations": contracts.VIOLATIONS,
                       "exitstatus": int(exitstatus), "tests_collected": session.testscollected, "tests_failed": session.testsfailed}, f)
