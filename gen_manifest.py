#!/venv/bin/python
"""Regenerates MANIFEST.json from the property modules present under fv/props (kept valid at all times)."""
import importlib
import json
import os
import sys

HERE = os.path.dirname(os.path.abspath(__file__))
sys.path.insert(0, HERE)
ALL = [f"C{i:02d}" for i in range(1, 21)]
TECH = {
    "C01": "runtime monitoring: postcondition on the real Die constructor over seeded die descriptions, exact-rational tiling oracle",
    "C02": "runtime monitoring: postconditions on Allocation.refine/uniform_refinement_depth/griddify along operation sequences, exact parent/child tiling + conservation oracle",
    "C03": "runtime monitoring: postcondition on create_initial_allocation, exact overlap-fraction reference model",
    "C04": "runtime monitoring: write->read->write differential on the real Netlist, field-by-field comparison of the loaded objects",
    "C05": "runtime monitoring: reference evaluator over the source document vs the loaded Netlist; fault injection of 11 ill-formedness classes that must be refused",
    "C06": "runtime monitoring: create_stog on all permutations vs exact three-valued reference recogniser; identity/value preservation check",
    "C07": "runtime monitoring: CNF captured from the real SATManager, interrogated with pysat under all 2^n assumptions vs direct integer semantics; solve()/value()/evalexpr() checked",
    "C08": "runtime monitoring: recording SATManager subclass captures rect.solve's formula; all models enumerated vs brute-force k-box orthogon reference; return value checked",
    "C09": "runtime monitoring: every Equation of the real legaliser Model evaluated (is_equation_met) on legal and one-clause-illegal configurations",
    "C10": "runtime monitoring: icontract postcondition on the real extract_solution (every optimiser iteration) + final-return feasibility oracle",
    "C11": "runtime monitoring: postcondition on Die.split_refinable_regions/initial_grid (parent matching, exact tiling, tag, ratio, count)",
    "C12": "runtime monitoring: must_be_refined vs refine along bounded refine-while-needed histories; exact reference for split decisions, halving, depth, grid alignment",
    "C13": "runtime monitoring: before/after snapshots, determinism re-run, recording wrapper over the trials of force_algorithm with independently recomputed cost",
    "C14": "runtime monitoring: icontract postcondition on the real spectral_layout_die (every trial, real seeds) + end-to-end module check",
    "C15": "runtime monitoring: exhaustive small grids + random grids + traced polygons through the real Strop/strop_decomposition vs independent existence test",
    "C16": "runtime monitoring: real operator overloads on typed expression DAGs vs direct big-int evaluation under all assignments; operand-mutation re-check",
    "C17": "runtime monitoring: postcondition on circle_circle_intersection_area vs 60-digit mpmath lens area; symmetry/bounds/totality",
    "C18": "runtime monitoring: Rectangle methods vs exact rational geometry with gray zones; in-situ icontract postconditions during higher-layer workloads and the repository's tests",
    "C19": "runtime monitoring: producer->reader differential for eight document producers; produce-twice and source-unchanged snapshots",
    "C20": "runtime monitoring: fork-pair differential (fresh vs after random history) with forced-tolerance third child as known-finding classifier; fresh-interpreter cross-check",
}
checks, na = [], []
for pid in ALL:
    path = os.path.join(HERE, "fv", "props", pid.lower() + ".py")
    if not os.path.exists(path):
        na.append({"property_id": pid, "reason": "check not built yet in this revision of /verif (planned, see DESIGN.md section 3)"})
        continue
    src = open(path).read()
    ns: dict = {}
    # read the declarative header without importing the repository
    for key in ("TECHNIQUE", "LEVEL_TEXT", "LEVEL_NOTE", "DESIGN_REF"):
        ns[key] = None
    mod_ns: dict = {}
    try:
        sys.modules.pop("fv.props." + pid.lower(), None)
        m = importlib.import_module("fv.props." + pid.lower())
        for key in ns:
            ns[key] = getattr(m, key, None)
    except Exception as e:  # noqa
        print("warning: cannot import", pid, e)
    checks.append({
        "property_id": pid,
        "quick_cmd": f"./vcheck {pid} --tier quick",
        "thorough_cmd": f"./vcheck {pid} --tier thorough",
        "evidence_file": f"evidence/{pid}.json",
        "replay_cmd_template": f"./vcheck {pid} --replay {{path}}",
        "engine": "fv",
        "level_claimed": {
            "category": "exploration",
            "text": ns["LEVEL_TEXT"] or "Runtime monitoring: the real code is executed on seeded, class-structured hostile workloads while an independent oracle judges every execution; the verdict is 'held on the K executions observed', with K, the input classes and the monitor counters in the evidence file.",
            "design_ref": ns["DESIGN_REF"] or f"DESIGN.md section 3 ({pid})",
        },
        "level_note": ns["LEVEL_NOTE"] or "Trusted: the harness oracle (exact rational / brute-force re-statement of the property), CPython, the generators' stated input classes; nothing is claimed about inputs outside the generated classes and size bounds.",
        "technique": ns["TECHNIQUE"] or TECH[pid],
    })
man = {
    "version": 1,
    "setup_cmd": "./setup.sh",
    "hooks": {
        "guard": "FRAME_VERIF",
        "enable": "no hooks inside /repo are needed: monitors (contracts, wrappers, recording subclasses, sys.monitoring line coverage) are attached from /verif at run time to the code imported from /repo's working tree (VERIF_REPO, default /repo)",
        "baseline_off_cmd": "cd /repo && /venv/bin/python -m pytest -ra -q -p no:cacheprovider --timeout=900 --continue-on-collection-errors",
        "source_commits": [],
        "add_only": True,
    },
    "engines": [{"name": "fv", "path": "fv/", "serves_properties": [c["property_id"] for c in checks],
                 "kind_free_text": "pure-Python runtime-monitoring harness: sharded seeded workloads (16 processes), oracles in exact arithmetic, contracts/wrappers on the real functions, known-findings classifier, evidence writer"}],
    "checks": checks,
    "not_applicable": na,
    "notes": "All checks import FRAME from /repo's current working tree (VERIF_REPO overrides for mutant self-validation). Exit 0 = held on what was observed, 1 = VIOLATION, 3 = inconclusive (monitor never reached / too few cases / watchdog). Known findings: known_findings.json (never written at run time).",
}
with open(os.path.join(HERE, "MANIFEST.json"), "w") as f:
    json.dump(man, f, indent=1)
    f.write("\n")
print("MANIFEST.json:", len(checks), "checks,", len(na), "not yet claimed")
