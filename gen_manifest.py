#!/venv/bin/python
"""Regenerates MANIFEST.json from the property modules present under fv/props (kept valid at all times)."""
import importlib
import json
import os
import sys

HERE = os.path.dirname(os.path.abspath(__file__))
sys.path.insert(0, HERE)
ALL = [f"C{i:02d}" for i in range(1, 21)]
checks, na = [], []
for pid in ALL:
    path = os.path.join(HERE, "fv", "props", pid.lower() + ".py")
    if not os.path.exists(path):
        na.append({"property_id": pid, "reason": "check not built yet in this revision of /verif (planned, see DESIGN.md section 3)"})
        continue
    src = open(path).read()
    ns: dict = {}
    # read the declarative header without importing the repository
    for key in ("TECHNIQUE", "LEVEL_TEXT", "LEVEL_NOTE", "DESIGN_REF"):
        ns[key] = None
    mod_ns: dict = {}
    try:
        sys.modules.pop("fv.props." + pid.lower(), None)
        m = importlib.import_module("fv.props." + pid.lower())
        for key in ns:
            ns[key] = getattr(m, key, None)
    except Exception as e:  # noqa
        print("warning: cannot import", pid, e)
    checks.append({
        "property_id": pid,
        "quick_cmd": f"./vcheck {pid} --tier quick",
        "thorough_cmd": f"./vcheck {pid} --tier thorough",
        "evidence_file": f"evidence/{pid}.json",
        "replay_cmd_template": f"./vcheck {pid} --replay {{path}}",
        "engine": "fv",
        "level_claimed": {
            "category": "exploration",
            "text": ns["LEVEL_TEXT"] or "Runtime monitoring: the real code is executed on seeded, class-structured hostile workloads while an independent oracle judges every execution; the verdict is 'held on the K executions observed', with K, the input classes and the monitor counters in the evidence file.",
            "design_ref": ns["DESIGN_REF"] or f"DESIGN.md section 3 ({pid})",
        },
        "level_note": ns["LEVEL_NOTE"] or "Trusted: the harness oracle (exact rational / brute-force re-statement of the property), CPython, the generators' stated input classes; nothing is claimed about inputs outside the generated classes and size bounds.",
        "technique": ns["TECHNIQUE"] or "runtime monitoring: seeded workload + reference-model oracle on the real functions",
    })
man = {
    "version": 1,
    "setup_cmd": "./setup.sh",
    "hooks": {
        "guard": "FRAME_VERIF",
        "enable": "no hooks inside /repo are needed: monitors (contracts, wrappers, recording subclasses, sys.monitoring line coverage) are attached from /verif at run time to the code imported from /repo's working tree (VERIF_REPO, default /repo)",
        "baseline_off_cmd": "cd /repo && /venv/bin/python -m pytest -ra -q -p no:cacheprovider --timeout=900 --continue-on-collection-errors",
        "source_commits": [],
        "add_only": True,
    },
    "engines": [{"name": "fv", "path": "fv/", "serves_properties": [c["property_id"] for c in checks],
                 "kind_free_text": "pure-Python runtime-monitoring harness: sharded seeded workloads (16 processes), oracles in exact arithmetic, contracts/wrappers on the real functions, known-findings classifier, evidence writer"}],
    "checks": checks,
    "not_applicable": na,
    "notes": "All checks import FRAME from /repo's current working tree (VERIF_REPO overrides for mutant self-validation). Exit 0 = held on what was observed, 1 = VIOLATION, 3 = inconclusive (monitor never reached / too few cases / watchdog). Known findings: known_findings.json (never written at run time).",
}
with open(os.path.join(HERE, "MANIFEST.json"), "w") as f:
    json.dump(man, f, indent=1)
    f.write("\n")
print("MANIFEST.json:", len(checks), "checks,", len(na), "not yet claimed")
