#!/bin/sh
# Offline set-up: contract libraries next to the repository's interpreter (git-ignored .deps).
HERE="$(cd "$(dirname "$0")" && pwd)"
if [ ! -d "$HERE/.deps/icontract" ]; then
  PIP_NO_INDEX=1 /venv/bin/pip install --quiet --no-index --find-links /opt/veriftools/wheels \
      --target "$HERE/.deps" icontract deal >/dev/null 2>&1 || echo "setup: could not install icontract/deal (checks fall back to plain wrappers)"
fi
exit 0
